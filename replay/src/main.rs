//! Replays a counterexample against the real crate in /repo (path dependency).
//! usage: verif_replay <kind> <comma-separated bytes | args>
//! prints `REPRODUCED: <what>` (exit 1) or `NOT-REPRODUCED: <what>` (exit 0)
use hpo::annotations::AnnotationId;
use hpo::HpoTermId;
use std::panic;

fn oracle(bytes: &[u8]) -> Option<u32> {
    if bytes.len() < 4 {
        return None;
    }
    std::str::from_utf8(&bytes[3..]).ok()?.parse::<u32>().ok()
}

fn c20_try_from(bytes: Vec<u8>) -> (bool, String) {
    let Ok(s) = String::from_utf8(bytes.clone()) else {
        return (false, "input is not UTF-8".into());
    };
    panic::set_hook(Box::new(|_| {}));
    let r = panic::catch_unwind(|| HpoTermId::try_from(s.as_str()));
    match r {
        Err(_) => (true, format!("HpoTermId::try_from({s:?}) [bytes {bytes:?}] panicked")),
        Ok(res) => {
            let exp = oracle(&bytes);
            let got = res.ok().map(|i| i.as_u32());
            if exp == got {
                (false, format!("HpoTermId::try_from({s:?}) = {got:?} as specified"))
            } else {
                (true, format!("HpoTermId::try_from({s:?}) = {got:?}, specified {exp:?}"))
            }
        }
    }
}

fn c20_bytes(x: u32) -> (bool, String) {
    let id = HpoTermId::from_u32(x);
    let ok = id.as_u32() == x
        && id.to_be_bytes() == x.to_be_bytes()
        && HpoTermId::from(id.to_be_bytes()) == id
        && HpoTermId::from(x) == id;
    (!ok, format!("byte/u32 conversions on {x}: as_u32={} bytes={:?} back={}", id.as_u32(), id.to_be_bytes(), HpoTermId::from(id.to_be_bytes()).as_u32()))
}

fn c20_display(x: u32) -> (bool, String) {
    let id = HpoTermId::from_u32(x);
    let s = id.to_string();
    let exp = format!("HP:{:07}", x);
    let back = HpoTermId::try_from(s.as_str()).ok().map(|i| i.as_u32());
    (s != exp || back != Some(x), format!("id {x} renders {s:?} (specified {exp:?}), parses back to {back:?}"))
}

fn main() {
    let a: Vec<String> = std::env::args().collect();
    let kind = a.get(1).map(String::as_str).unwrap_or("");
    let arg = a.get(2).cloned().unwrap_or_default();
    let bytes = || -> Vec<u8> { arg.split(',').filter(|x| !x.is_empty()).map(|x| x.trim().parse::<u8>().unwrap()).collect() };
    let (bad, what) = match kind {
        "c20_try_from" => c20_try_from(bytes()),
        "c20_bytes" => {
            let b = bytes();
            c20_bytes(u32::from_le_bytes([b[0], b[1], b[2], b[3]]))
        }
        "c20_display" => {
            let b = bytes();
            c20_display(u32::from_le_bytes([b[0], b[1], b[2], b[3]]))
        }
        _ => (false, format!("unknown replay kind {kind}")),
    };
    if bad {
        println!("REPRODUCED: {what}");
        std::process::exit(1);
    }
    println!("NOT-REPRODUCED: {what}");
}
