//! Replays a counterexample against the real crate in /repo (path dependency).
//! usage: verif_replay <kind> <comma-separated bytes | args>
//! prints `REPRODUCED: <what>` (exit 1) or `NOT-REPRODUCED: <what>` (exit 0)
mod explore;
use hpo::annotations::AnnotationId;
use hpo::HpoTermId;
use std::panic;

fn oracle(bytes: &[u8]) -> Option<u32> {
    if bytes.len() < 4 {
        return None;
    }
    std::str::from_utf8(&bytes[3..]).ok()?.parse::<u32>().ok()
}

fn c20_try_from(bytes: Vec<u8>) -> (bool, String) {
    let Ok(s) = String::from_utf8(bytes.clone()) else {
        return (false, "input is not UTF-8".into());
    };
    panic::set_hook(Box::new(|_| {}));
    let r = panic::catch_unwind(|| HpoTermId::try_from(s.as_str()));
    match r {
        Err(_) => (true, format!("HpoTermId::try_from({s:?}) [bytes {bytes:?}] panicked")),
        Ok(res) => {
            let exp = oracle(&bytes);
            let got = res.ok().map(|i| i.as_u32());
            if exp == got {
                (false, format!("HpoTermId::try_from({s:?}) = {got:?} as specified"))
            } else {
                (true, format!("HpoTermId::try_from({s:?}) = {got:?}, specified {exp:?}"))
            }
        }
    }
}

fn c20_bytes(x: u32) -> (bool, String) {
    let id = HpoTermId::from_u32(x);
    let ok = id.as_u32() == x
        && id.to_be_bytes() == x.to_be_bytes()
        && HpoTermId::from(id.to_be_bytes()) == id
        && HpoTermId::from(x) == id;
    (!ok, format!("byte/u32 conversions on {x}: as_u32={} bytes={:?} back={}", id.as_u32(), id.to_be_bytes(), HpoTermId::from(id.to_be_bytes()).as_u32()))
}

fn c20_display(x: u32) -> (bool, String) {
    let id = HpoTermId::from_u32(x);
    let s = id.to_string();
    let exp = format!("HP:{:07}", x);
    let back = HpoTermId::try_from(s.as_str()).ok().map(|i| i.as_u32());
    (s != exp || back != Some(x), format!("id {x} renders {s:?} (specified {exp:?}), parses back to {back:?}"))
}

// ---------------- C15: canned call histories for the error-frame obligations ----------------
use hpo::annotations::{Disease, GeneId, OmimDiseaseId, OrphaDiseaseId};
use hpo::builder::Builder;
use hpo::Ontology;

/// walks the read API of one ontology under catch_unwind and renders what it sees
fn walk(ont: &Ontology) -> Result<String, String> {
    let ont = panic::AssertUnwindSafe(ont);
    panic::set_hook(Box::new(|_| {}));
    let r = panic::catch_unwind(move || {
        let mut ids: Vec<u32> = ont.iter().map(|t| t.id().as_u32()).collect();
        ids.sort_unstable();
        let mut out = String::new();
        for id in ids {
            let t = ont.hpo(id).unwrap();
            let mut p: Vec<u32> = t.parents().map(|x| x.id().as_u32()).collect();
            p.sort_unstable();
            let mut c: Vec<u32> = t.children().map(|x| x.id().as_u32()).collect();
            c.sort_unstable();
            let mut a: Vec<u32> = t.all_parents().map(|x| x.id().as_u32()).collect();
            a.sort_unstable();
            let mut g: Vec<u32> = t.genes().map(|x| x.id().as_u32()).collect();
            g.sort_unstable();
            let mut o: Vec<u32> = t.omim_diseases().map(|x| x.id().as_u32()).collect();
            o.sort_unstable();
            let mut r: Vec<u32> = t.orpha_diseases().map(|x| x.id().as_u32()).collect();
            r.sort_unstable();
            out += &format!("T{id} p{p:?} c{c:?} a{a:?} g{g:?} o{o:?} r{r:?};");
        }
        let mut gs: Vec<(u32, Vec<u32>)> = ont
            .genes()
            .map(|g| (g.id().as_u32(), g.to_hpo_set(&ont).iter().map(|t| t.id().as_u32()).collect()))
            .collect();
        gs.sort();
        let mut os: Vec<(u32, Vec<u32>)> = ont
            .omim_diseases()
            .map(|g| (g.id().as_u32(), g.to_hpo_set(&ont).iter().map(|t| t.id().as_u32()).collect()))
            .collect();
        os.sort();
        let mut rs: Vec<(u32, Vec<u32>)> = ont
            .orpha_diseases()
            .map(|g| (g.id().as_u32(), g.to_hpo_set(&ont).iter().map(|t| t.id().as_u32()).collect()))
            .collect();
        rs.sort();
        out += &format!("G{gs:?} O{os:?} R{rs:?}");
        out
    });
    r.map_err(|_| "read API panicked".to_string())
}

/// history: terms 1,2; edge 1<-2; then the failing call; compare with the same history without it
fn c15_history(which: &str) -> (bool, String) {
    let build = |with_failing: bool| -> (Ontology, bool) {
        let mut b = Builder::new();
        b.new_term("root", 1u32);
        b.new_term("child", 2u32);
        let mut b = b.terms_complete();
        b.add_parent(1u32, 2u32).unwrap();
        let mut failed_as_expected = true;
        if with_failing && which == "add_parent_missing_child" {
            failed_as_expected = b.add_parent(1u32, 77u32).is_err();
        }
        if with_failing && which == "add_parent_missing_parent" {
            failed_as_expected = b.add_parent(77u32, 2u32).is_err();
        }
        let mut b = b.connect_all_terms();
        b.annotate_gene(GeneId::from(5u32), "G5", 2u32.into()).unwrap();
        b.annotate_omim_disease(OmimDiseaseId::from(6u32), "O6", 2u32.into()).unwrap();
        b.annotate_orpha_disease(OrphaDiseaseId::from(7u32), "R7", 2u32.into()).unwrap();
        if with_failing && which == "annotate_gene_missing_term" {
            failed_as_expected = b.annotate_gene(GeneId::from(9u32), "G9", 77u32.into()).is_err();
        }
        if with_failing && which == "annotate_omim_missing_term" {
            failed_as_expected = b.annotate_omim_disease(OmimDiseaseId::from(9u32), "O9", 77u32.into()).is_err();
        }
        if with_failing && which == "annotate_orpha_missing_term" {
            failed_as_expected = b.annotate_orpha_disease(OrphaDiseaseId::from(9u32), "R9", 77u32.into()).is_err();
        }
        (b.calculate_information_content().unwrap().build_minimal(), failed_as_expected)
    };
    let (with, is_err) = build(true);
    let (without, _) = build(false);
    let w = walk(&with);
    let wo = walk(&without);
    if !is_err {
        return (true, format!("{which}: the call on a missing term did not return an error"));
    }
    match (w, wo) {
        (Err(e), _) => (true, format!("{which}: after the rejected call the built ontology is not referentially closed: {e}")),
        (Ok(a), Ok(b)) if a != b => (true, format!("{which}: rejected call changed the ontology: with={a} without={b}")),
        (Ok(_), Ok(_)) => (false, format!("{which}: rejected call had no effect")),
        (_, Err(e)) => (false, format!("{which}: baseline history failed: {e}")),
    }
}

// ---------------- C07: record/ontology round trips with over-long multi-byte names ----------------
fn c07_long_name(which: &str) -> (bool, String) {
    // 254 ASCII bytes followed by a 2-byte character: byte 255 falls inside the character
    let name: String = "a".repeat(254) + "\u{e9}" + "tail";
    panic::set_hook(Box::new(|_| {}));
    let name2 = name.clone();
    let which2 = which.to_string();
    let r = panic::catch_unwind(move || -> Result<String, String> {
        let mut b = Builder::new();
        b.new_term("All", 1u32);
        b.new_term("Phenotypic abnormality", 118u32);
        if which2 == "term" {
            b.new_term(&name2, 2u32);
        } else {
            b.new_term("x", 2u32);
        }
        let mut b = b.terms_complete();
        b.add_parent(1u32, 118u32).unwrap();
        b.add_parent(118u32, 2u32).unwrap();
        let mut b = b.connect_all_terms();
        if which2 == "gene" {
            b.annotate_gene(GeneId::from(7u32), &name2, 2u32.into()).unwrap();
        }
        let ont = b.calculate_information_content().unwrap().build_with_defaults().unwrap();
        let bytes = ont.as_bytes();
        match Ontology::from_bytes(&bytes) {
            Ok(o2) => Ok(format!("loaded {} terms", o2.len())),
            Err(e) => Err(format!("loader rejected the bytes the writer emitted: {e}")),
        }
    });
    match r {
        Err(_) => (true, format!("{which}: name of {} bytes with a multi-byte character across byte 255: loader panicked on the writer's output", name.len())),
        Ok(Err(e)) => (true, format!("{which}: name of {} bytes with a multi-byte character across byte 255: {e}", name.len())),
        Ok(Ok(m)) => (false, format!("{which}: round trip ok ({m})")),
    }
}

// ---------------- C04: Mutation similarity on distinct terms without any annotation ----------------
fn c04_mutation_unannotated(kind: &str) -> (bool, String) {
    use hpo::similarity::{Builtins, Similarity};
    use hpo::term::InformationContentKind;
    let mut b = Builder::new();
    b.new_term("All", 1u32);
    b.new_term("x", 2u32);
    b.new_term("y", 3u32);
    let mut b = b.terms_complete();
    b.add_parent(1u32, 2u32).unwrap();
    b.add_parent(1u32, 3u32).unwrap();
    let ont = b.connect_all_terms().calculate_information_content().unwrap().build_minimal();
    let k = match kind { "gene" => InformationContentKind::Gene, "omim" => InformationContentKind::Omim, _ => InformationContentKind::Orpha };
    let s = Builtins::Mutation(k).calculate(&ont.hpo(2u32).unwrap(), &ont.hpo(3u32).unwrap());
    let bad = !(s == 0.0);
    (bad, format!("Mutation({kind}) of two distinct terms without annotations = {s} (specified: 0, never NaN)"))
}

fn main() {
    let a: Vec<String> = std::env::args().collect();
    let kind = a.get(1).map(String::as_str).unwrap_or("");
    let arg = a.get(2).cloned().unwrap_or_default();
    let bytes = || -> Vec<u8> { arg.split(',').filter(|x| !x.is_empty()).map(|x| x.trim().parse::<u8>().unwrap()).collect() };
    if kind == "explore" {
        let tier = a.get(3).cloned().unwrap_or_default();
        std::process::exit(explore::explore(&arg, tier == "thorough"));
    }
    if kind == "case" {
        let (bad, what) = explore::replay_case(&arg, a.get(3).map(String::as_str).unwrap_or(""));
        if bad {
            println!("REPRODUCED: {what}");
            std::process::exit(1);
        }
        println!("NOT-REPRODUCED: {what}");
        return;
    }
    let (bad, what) = match kind {
        "c20_try_from" => c20_try_from(bytes()),
        "c20_bytes" => {
            let b = bytes();
            c20_bytes(u32::from_le_bytes([b[0], b[1], b[2], b[3]]))
        }
        "c20_display" => {
            let b = bytes();
            c20_display(u32::from_le_bytes([b[0], b[1], b[2], b[3]]))
        }
        k if k.starts_with("c15:") => c15_history(&k[4..]),
        k if k.starts_with("c07:long_name_") => c07_long_name(&k[14..]),
        k if k.starts_with("c04:mutation_unannotated_") => c04_mutation_unannotated(&k[25..]),
        _ => (false, format!("unknown replay kind {kind}")),
    };
    if bad {
        println!("REPRODUCED: {what}");
        std::process::exit(1);
    }
    println!("NOT-REPRODUCED: {what}");
}
