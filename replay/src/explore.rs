//! Bounded explorer: a deterministic enumeration of small ontologies, fact sets and call orders, checked against an
//! independently written reference model. It is (a) the counterexample finder / replay harness for obligations that
//! the verifier rejects, and (b) the *bounded stand-in* for functions that cannot be brought within the verifier's
//! reach (DESIGN.md section 3.10). Everything here is labelled "bounded" in the evidence and never counted as proved.
//!
//! usage (through main.rs):  verif_replay explore <Cxx> <quick|thorough>      -> EXPLORE-OK ... | EXPLORE-VIOLATION <case>
//!                           verif_replay case <Cxx> <case-id>                -> REPRODUCED: ... | NOT-REPRODUCED: ...
use hpo::annotations::{AnnotationId, Disease, GeneId, OmimDiseaseId, OrphaDiseaseId};
use hpo::builder::Builder;
use hpo::term::{HpoGroup, InformationContentKind};
use hpo::{HpoSet, HpoTermId, Ontology};
use std::collections::{BTreeMap, BTreeSet};
use std::panic;

pub const MAXN: usize = 8;
/// fact node meaning: the record is added without a term
pub const NO_TERM: u8 = 255;

#[derive(Clone, Debug, PartialEq, Eq)]
pub struct Case {
    pub n: usize,
    /// bit k of `edges` = k-th pair (i, j), i < j, in lexicographic order: node i is a direct parent of node j
    pub edges: u32,
    pub idmap: u8,
    pub order: u8,
    /// (kind 0 gene | 1 omim | 2 orpha, record id, node)
    pub facts: Vec<(u8, u32, u8)>,
}

impl Case {
    pub fn id(&self) -> String {
        let f: Vec<String> = self.facts.iter().map(|(k, r, d)| format!("{k}.{r}.{d}")).collect();
        format!("n{}-e{}-m{}-o{}-f{}", self.n, self.edges, self.idmap, self.order, f.join("_"))
    }
    pub fn parse(s: &str) -> Option<Case> {
        let mut n = 0;
        let mut edges = 0;
        let mut idmap = 0;
        let mut order = 0;
        let mut facts = vec![];
        for part in s.split('-') {
            let (h, t) = part.split_at(1);
            match h {
                "n" => n = t.parse().ok()?,
                "e" => edges = t.parse().ok()?,
                "m" => idmap = t.parse().ok()?,
                "o" => order = t.parse().ok()?,
                "f" => {
                    for f in t.split('_').filter(|x| !x.is_empty()) {
                        let v: Vec<&str> = f.split('.').collect();
                        facts.push((v[0].parse().ok()?, v[1].parse().ok()?, v[2].parse().ok()?));
                    }
                }
                _ => return None,
            }
        }
        Some(Case { n, edges, idmap, order, facts })
    }
}

pub fn pairs(n: usize) -> Vec<(usize, usize)> {
    let mut v = vec![];
    for i in 0..n {
        for j in (i + 1)..n {
            v.push((i, j));
        }
    }
    v
}

/// node -> term id. Map 0 has the two standard roots as nodes 0 and 1.
pub fn ids(idmap: u8, n: usize) -> Vec<u32> {
    let all: [u32; MAXN] = match idmap {
        0 => [1, 118, 200, 5, 400, 707, 12823, 3000],
        1 => [50, 40, 30, 20, 10, 60, 70, 5],
        2 => [30, 10, 9_999_999, 20, 40, 9_999_998, 2, 50],
        // a term with id 0 (HP:0000000 is an ordinary id; slot 0 of the arena is not term 0)
        4 => [0, 40, 30, 20, 10, 60, 70, 5],
        // id 1 (the usual root id) on an inner node
        _ => [7, 1, 11, 2, 5, 13, 3, 17],
    };
    all[..n].to_vec()
}

pub struct Model {
    pub n: usize,
    pub ids: Vec<u32>,
    pub parents: Vec<BTreeSet<usize>>,
    pub children: Vec<BTreeSet<usize>>,
    pub anc: Vec<BTreeSet<usize>>,
    /// per kind: record id -> direct nodes
    pub recs: [BTreeMap<u32, BTreeSet<usize>>; 3],
    /// when the model was taken from an ontology's read API: per kind, per node, the record ids the term carries
    pub obs_linked: Option<[Vec<BTreeSet<u32>>; 3]>,
}

impl Model {
    pub fn new(c: &Case) -> Model {
        let n = c.n;
        let mut parents = vec![BTreeSet::new(); n];
        let mut children = vec![BTreeSet::new(); n];
        for (k, (i, j)) in pairs(n).into_iter().enumerate() {
            if c.edges >> k & 1 == 1 {
                parents[j].insert(i);
                children[i].insert(j);
            }
        }
        // nodes are in topological order (every edge goes from a smaller to a larger index)
        let mut anc: Vec<BTreeSet<usize>> = vec![BTreeSet::new(); n];
        for j in 0..n {
            let mut s = BTreeSet::new();
            for &p in &parents[j] {
                s.insert(p);
                s.extend(anc[p].iter().copied());
            }
            anc[j] = s;
        }
        let mut recs: [BTreeMap<u32, BTreeSet<usize>>; 3] = Default::default();
        for &(k, r, d) in &c.facts {
            let e = recs[k as usize].entry(r).or_default();
            // node 255 = a record that is added without any term
            if d != NO_TERM {
                e.insert(d as usize);
            }
        }
        Model { n, ids: ids(c.idmap, n), parents, children, anc, recs, obs_linked: None }
    }
    /// The same case as the ontology's own read API presents it: links, closure, inherited annotation sets and
    /// records are what the ontology reports. Oracles of the *downstream* properties (information content,
    /// similarities, enrichment, sets, categories, ancestor algebra) are evaluated against this view, so that each of
    /// them judges only its own layer: a defect in the closure or in the inheritance is C01's / C02's to report.
    pub fn observed(&self, ont: &Ontology) -> Model {
        let idx = |id: u32| self.ids.iter().position(|&x| x == id);
        let mut parents = vec![BTreeSet::new(); self.n];
        let mut children = vec![BTreeSet::new(); self.n];
        let mut anc = vec![BTreeSet::new(); self.n];
        let mut obs: [Vec<BTreeSet<u32>>; 3] = [vec![BTreeSet::new(); self.n], vec![BTreeSet::new(); self.n], vec![BTreeSet::new(); self.n]];
        for t in 0..self.n {
            if let Some(h) = ont.hpo(self.ids[t]) {
                parents[t] = h.parent_ids().iter().filter_map(|x| idx(x.as_u32())).collect();
                children[t] = h.children_ids().iter().filter_map(|x| idx(x.as_u32())).collect();
                anc[t] = h.all_parent_ids().iter().filter_map(|x| idx(x.as_u32())).collect();
                obs[0][t] = h.gene_ids().iter().map(|x| x.as_u32()).collect();
                obs[1][t] = h.omim_disease_ids().iter().map(|x| x.as_u32()).collect();
                obs[2][t] = h.orpha_disease_ids().iter().map(|x| x.as_u32()).collect();
            }
        }
        let mut recs: [BTreeMap<u32, BTreeSet<usize>>; 3] = Default::default();
        for g in ont.genes() {
            recs[0].insert(g.id().as_u32(), g.hpo_terms().iter().filter_map(|x| idx(x.as_u32())).collect());
        }
        for g in ont.omim_diseases() {
            recs[1].insert(g.id().as_u32(), g.hpo_terms().iter().filter_map(|x| idx(x.as_u32())).collect());
        }
        for g in ont.orpha_diseases() {
            recs[2].insert(g.id().as_u32(), g.hpo_terms().iter().filter_map(|x| idx(x.as_u32())).collect());
        }
        Model { n: self.n, ids: self.ids.clone(), parents, children, anc, recs, obs_linked: Some(obs) }
    }
    /// records of kind k linked to node t after inheritance
    pub fn linked(&self, k: usize, t: usize) -> BTreeSet<u32> {
        if let Some(o) = &self.obs_linked {
            return o[k][t].clone();
        }
        self.recs[k]
            .iter()
            .filter(|(_, ds)| ds.iter().any(|&d| d == t || self.anc[d].contains(&t)))
            .map(|(r, _)| *r)
            .collect()
    }
    pub fn idset(&self, s: &BTreeSet<usize>) -> BTreeSet<u32> {
        s.iter().map(|&i| self.ids[i]).collect()
    }
}

/// The sub-ontology below `root` with every descendant of `root` as a leaf: all of them are retained, with the original
/// parent links between retained terms. Which records are kept is C14's to judge (taken from the sub-ontology itself);
/// a kept record is linked to exactly the retained subset of its direct terms.
fn sub_model(m: &Model, root: usize, sub: &Ontology) -> (Model, Vec<usize>) {
    let mut retained: BTreeSet<usize> = BTreeSet::new();
    retained.insert(root);
    let mut stack = vec![root];
    while let Some(x) = stack.pop() {
        for &c in &m.children[x] {
            if retained.insert(c) {
                stack.push(c);
            }
        }
    }
    let nodes: Vec<usize> = retained.iter().copied().collect();
    let pos = |x: usize| nodes.iter().position(|&y| y == x);
    let n = nodes.len();
    let mut parents = vec![BTreeSet::new(); n];
    let mut children = vec![BTreeSet::new(); n];
    for (i, &x) in nodes.iter().enumerate() {
        for &p in &m.parents[x] {
            if let Some(j) = pos(p) {
                parents[i].insert(j);
                children[j].insert(i);
            }
        }
    }
    // closure (nodes are in topological order: indices ascend along every edge)
    let mut anc: Vec<BTreeSet<usize>> = vec![BTreeSet::new(); n];
    for j in 0..n {
        let mut s = BTreeSet::new();
        for &p in &parents[j] {
            s.insert(p);
            s.extend(anc[p].iter().copied());
        }
        anc[j] = s;
    }
    let kept: [BTreeSet<u32>; 3] = [
        sub.genes().map(|g| g.id().as_u32()).collect(),
        sub.omim_diseases().map(|g| g.id().as_u32()).collect(),
        sub.orpha_diseases().map(|g| g.id().as_u32()).collect(),
    ];
    let mut recs: [BTreeMap<u32, BTreeSet<usize>>; 3] = Default::default();
    for k in 0..3 {
        for r in &kept[k] {
            let direct: BTreeSet<usize> = m.recs[k].get(r).map(|ds| ds.iter().filter_map(|&d| pos(d)).collect()).unwrap_or_default();
            recs[k].insert(*r, direct);
        }
    }
    (Model { n, ids: nodes.iter().map(|&x| m.ids[x]).collect(), parents, children, anc, recs, obs_linked: None }, nodes)
}
/// construction path sub_ontology: below HP:1 and below HP:118, every descendant as a leaf
fn check_sub_ontologies(m: &Model, o: &Ontology, f: fn(&Model, &Ontology) -> Check) -> Check {
    for root in [0usize, 1] {
        if root >= m.n {
            continue;
        }
        let rt = o.hpo(m.ids[root]).ok_or("root term missing")?;
        let mut leaves = vec![rt];
        let mut seen: BTreeSet<usize> = BTreeSet::new();
        let mut stack = vec![root];
        while let Some(x) = stack.pop() {
            for &c in &m.children[x] {
                if seen.insert(c) {
                    stack.push(c);
                    leaves.push(o.hpo(m.ids[c]).ok_or("term missing")?);
                }
            }
        }
        let sub = match panic::catch_unwind(panic::AssertUnwindSafe(|| o.sub_ontology(rt, leaves.clone()))) {
            Ok(Ok(s)) => s,
            // a refused or panicking sub_ontology call is C14's to report
            _ => continue,
        };
        let (ms, _) = sub_model(m, root, &sub);
        if sub.len() != ms.n {
            // which terms are retained is C14's to judge
            continue;
        }
        f(&ms, &sub).map_err(|e| format!("sub_ontology below {} with all its descendants as leaves: {e}", m.ids[root]))?;
    }
    Ok(())
}

/// Construction path "JAX text files": hp.obo, genes_to_phenotype.txt and phenotype.hpoa are written from the case (stanzas
/// in the supply order of the case, rows in the order of the facts; records without any term cannot be expressed in
/// these files and are left out) and loaded with Ontology::from_standard. The files live in a scratch directory (below
/// $VERIF_SCRATCH, which ./check points into its build directory; else the system temp dir) for the duration of the call.
pub fn build_text(c: &Case) -> Result<Ontology, String> {
    static CTR: std::sync::atomic::AtomicUsize = std::sync::atomic::AtomicUsize::new(0);
    let m = Model::new(c);
    let base = std::env::var("VERIF_SCRATCH").map(std::path::PathBuf::from).unwrap_or_else(|_| std::env::temp_dir());
    let dir = base.join(format!("verif-explore-{}-{}", std::process::id(), CTR.fetch_add(1, std::sync::atomic::Ordering::Relaxed)));
    std::fs::create_dir_all(&dir).map_err(|e| format!("scratch dir: {e}"))?;
    let hp = |id: u32| format!("HP:{id:07}");
    let mut obo = String::from("format-version: 1.2\ndata-version: hp/releases/2024-03-07\n");
    for node in node_order(c.n, c.order) {
        obo.push_str(&format!("\n[Term]\nid: {}\nname: {}\n", hp(m.ids[node]), name_of(node)));
        let mut ps: Vec<usize> = m.parents[node].iter().copied().collect();
        if c.order & 1 == 1 {
            ps.reverse();
        }
        for p in ps {
            obo.push_str(&format!("is_a: {} ! {}\n", hp(m.ids[p]), name_of(p)));
        }
    }
    let mut g2p = String::from("ncbi_gene_id\tgene_symbol\thpo_id\thpo_name\tfrequency\tdisease_id\n");
    let mut hpoa = String::from("#description: generated\ndatabase_id\tdisease_name\tqualifier\thpo_id\treference\tevidence\n");
    for &(k, r, d) in &c.facts {
        if d == NO_TERM {
            continue;
        }
        let t = d as usize;
        match k {
            0 => g2p.push_str(&format!("{r}\t{}\t{}\t{}\t-\tOMIM:1\n", rec_name(0, r), hp(m.ids[t]), name_of(t))),
            1 => hpoa.push_str(&format!("OMIM:{r}\t{}\t\t{}\tPMID:1\tTAS\n", rec_name(1, r), hp(m.ids[t]))),
            _ => hpoa.push_str(&format!("ORPHA:{r}\t{}\t\t{}\tPMID:1\tTAS\n", rec_name(2, r), hp(m.ids[t]))),
        }
    }
    let w = |name: &str, text: &str| std::fs::write(dir.join(name), text).map_err(|e| format!("scratch file: {e}"));
    w("hp.obo", &obo)?;
    w("genes_to_phenotype.txt", &g2p)?;
    w("phenotype.hpoa", &hpoa)?;
    let folder = dir.to_string_lossy().to_string();
    let r = panic::catch_unwind(|| Ontology::from_standard(&folder));
    let _ = std::fs::remove_dir_all(&dir);
    match r {
        Ok(Ok(o)) => Ok(o),
        Ok(Err(e)) => Err(format!("from_standard failed: {e}")),
        Err(_) => Err("from_standard panicked".into()),
    }
}
/// the case as the text files can express it (no records without terms)
fn text_case(c: &Case) -> Case {
    let mut ct = c.clone();
    ct.facts.retain(|f| f.2 != NO_TERM);
    ct
}

fn node_order(n: usize, order: u8) -> Vec<usize> {
    let mut v: Vec<usize> = (0..n).collect();
    match order {
        1 => v.reverse(),
        2 => v.rotate_left(1.min(n)),
        3 => {
            v.reverse();
            v.rotate_left(1.min(n));
        }
        _ => {}
    }
    v
}

/// record names
pub fn rec_name(kind: usize, r: u32) -> String {
    match kind {
        // record 9 of every kind (only ever added without terms) is unnamed: the shortest possible record of its section,
        // and the last one the independent encoder writes
        _ if r == 9 => String::new(),
        // over-long gene symbol whose byte 255 falls inside a three-byte character (bytes 253..256)
        0 if r == 2 => "A".repeat(253) + "\u{20ac}" + "b",
        0 => format!("G{r}"),
        // disease 2 of each kind has a name whose byte length exceeds its character count
        1 if r == 2 => "\u{d6}2".to_string(),
        1 => format!("O{r}"),
        _ if r == 4 => "R4 \u{f1}\u{20ac}".to_string(),
        _ => format!("R{r}"),
    }
}
pub fn name_of(node: usize) -> String {
    match node {
        // over-long name whose byte 255 falls inside a two-byte character
        3 => "\u{e9}".repeat(150) + "x",
        // exactly 255 bytes
        4 => "y".repeat(255),
        // over-long name whose byte 255 falls inside a four-byte character (bytes 252..256)
        2 => "B".repeat(252) + "\u{1f600}" + "z",
        _ => format!("term {node} \u{e9}"),
    }
}
/// the documented limit for term and gene names in the binary format: at most 255 bytes, cut at a character boundary
pub fn name255(s: &str) -> String {
    let mut k = s.len().min(255);
    while !s.is_char_boundary(k) {
        k -= 1;
    }
    s[..k].to_string()
}

/// builds the ontology of a case through the Builder API, in the supply order of the case
pub fn build(c: &Case, defaults: bool) -> Result<Ontology, String> {
    build_opts(c, defaults, false)
}
/// `dup`: every term id is supplied a second time (with another name) after all terms were added once;
/// documented behaviour of adding an existing id: nothing happens
pub fn build_opts(c: &Case, defaults: bool, dup: bool) -> Result<Ontology, String> {
    let m = Model::new(c);
    let mut b = Builder::new();
    for node in node_order(c.n, c.order) {
        b.new_term(&name_of(node), m.ids[node]);
    }
    if dup {
        for node in node_order(c.n, c.order ^ 1) {
            b.new_term("supplied again", m.ids[node]);
        }
    }
    let mut b = b.terms_complete();
    let mut es: Vec<(usize, usize)> = pairs(c.n).into_iter().enumerate().filter(|(k, _)| c.edges >> k & 1 == 1).map(|(_, p)| p).collect();
    if c.order & 1 == 1 {
        es.reverse();
    }
    for (i, j) in es {
        b.add_parent(m.ids[i], m.ids[j]).map_err(|e| format!("add_parent failed: {e}"))?;
    }
    let mut b = b.connect_all_terms();
    for &(k, r, d) in &c.facts {
        if d == NO_TERM {
            match k {
                0 => b.add_gene(&rec_name(0, r), GeneId::from(r)),
                1 => {
                    b.add_omim_disease(&rec_name(1, r), OmimDiseaseId::from(r));
                }
                _ => {
                    b.add_orpha_disease(&rec_name(2, r), OrphaDiseaseId::from(r));
                }
            }
            continue;
        }
        let t: HpoTermId = m.ids[d as usize].into();
        let res = match k {
            0 => b.annotate_gene(GeneId::from(r), &rec_name(0, r), t),
            1 => b.annotate_omim_disease(OmimDiseaseId::from(r), &rec_name(1, r), t),
            _ => b.annotate_orpha_disease(OrphaDiseaseId::from(r), &rec_name(2, r), t),
        };
        res.map_err(|e| format!("annotate failed: {e}"))?;
    }
    let b = b.calculate_information_content().map_err(|e| format!("ic failed: {e}"))?;
    if defaults {
        b.build_with_defaults().map_err(|e| format!("build_with_defaults failed: {e}"))
    } else {
        Ok(b.build_minimal())
    }
}

fn grp(g: &HpoGroup) -> BTreeSet<u32> {
    g.iter().map(|x| x.as_u32()).collect()
}

/// everything observable about an ontology, rendered canonically (sorted): used for "observationally identical"
pub fn walk(ont: &Ontology) -> String {
    walk_with(ont, false)
}
pub fn walk_with(ont: &Ontology, cut_names: bool) -> String {
    let mut idsv: Vec<u32> = ont.iter().map(|t| t.id().as_u32()).collect();
    idsv.sort_unstable();
    let mut out = format!("v{} n{} |", ont.hpo_version(), ont.len());
    for id in idsv {
        let t = ont.hpo(id).unwrap();
        let p: BTreeSet<u32> = t.parents().map(|x| x.id().as_u32()).collect();
        let c: BTreeSet<u32> = t.children().map(|x| x.id().as_u32()).collect();
        let a: BTreeSet<u32> = t.all_parents().map(|x| x.id().as_u32()).collect();
        let g: BTreeSet<u32> = t.genes().map(|x| x.id().as_u32()).collect();
        let o: BTreeSet<u32> = t.omim_diseases().map(|x| x.id().as_u32()).collect();
        let r: BTreeSet<u32> = t.orpha_diseases().map(|x| x.id().as_u32()).collect();
        let ic = t.information_content();
        let cats: Vec<u32> = t.categories().iter().map(|x| x.as_u32()).collect();
        out += &format!(
            "T{id} {:?} obs{} rep{:?} p{p:?} c{c:?} a{a:?} g{g:?} o{o:?} r{r:?} ic{:08x}.{:08x}.{:08x} mod{} cat{cats:?};",
            if cut_names { name255(t.name()) } else { t.name().to_string() },
            t.is_obsolete(),
            t.replacement_id().map(|x| x.as_u32()),
            ic.gene().to_bits(),
            ic.omim_disease().to_bits(),
            ic.orpha_disease().to_bits(),
            t.is_modifier()
        );
    }
    let mut gs: Vec<(u32, String, BTreeSet<u32>)> = ont.genes().map(|g| (g.id().as_u32(), if cut_names { name255(g.name()) } else { g.name().to_string() }, grp(g.hpo_terms()))).collect();
    gs.sort();
    let mut os: Vec<(u32, String, BTreeSet<u32>)> = ont.omim_diseases().map(|g| (g.id().as_u32(), g.name().to_string(), grp(g.hpo_terms()))).collect();
    os.sort();
    let mut rs: Vec<(u32, String, BTreeSet<u32>)> = ont.orpha_diseases().map(|g| (g.id().as_u32(), g.name().to_string(), grp(g.hpo_terms()))).collect();
    rs.sort();
    out += &format!("G{gs:?} O{os:?} R{rs:?} C{:?} M{:?}", grp(ont.categories()), grp(ont.modifier()));
    out
}

fn ic_expected(total: usize, current: usize) -> f32 {
    if total == 0 || current == 0 {
        return 0.0;
    }
    ((current as u16 as f32) / (total as u16 as f32)).ln() * -1.0
}

type Check = Result<(), String>;

fn expect<T: PartialEq + std::fmt::Debug>(what: &str, got: T, exp: T) -> Check {
    if got == exp {
        Ok(())
    } else {
        Err(format!("{what}: got {got:?}, specified {exp:?}"))
    }
}

// ------------------------------------------------------------------------------------------------ property oracles
pub fn check_c01(c: &Case) -> Check {
    let m = Model::new(c);
    let ont = build(c, false)?;
    check_c01_on(&m, &ont)?;
    if c.idmap == 0 && c.n >= 2 && c.edges & 1 == 1 {
        // binary construction paths: the crate's writer + reader, and the independent v1/v2/v3 encoder (both record
        // orders, no / all terms flagged obsolete) + reader. A file that does not load is C07's / C08's to report.
        let o = build(c, true)?;
        if let Ok(Ok(o2)) = load(&o.as_bytes()) {
            check_c01_on(&m, &o2).map_err(|e| format!("as_bytes -> from_bytes path: {e}"))?;
        }
        check_sub_ontologies(&m, &o, check_c01_on)?;
        // text construction path (a load failure is C09's to report)
        if c.n <= 4 {
            if let Ok(ot) = build_text(c) {
                check_c01_on(&m, &ot).map_err(|e| format!("hp.obo path (from_standard): {e}"))?;
            }
        }
        for version in [1u8, 2, 3] {
            for obsolete in [false, true] {
                let enc = Enc { version, reverse: c.order & 1 == 1, flags: vec![(obsolete, 0); c.n], rename_term: None, rename_rec: None };
                if let Ok(Ok(o3)) = load(&encode(c, &enc)) {
                    check_c01_on(&m, &o3).map_err(|e| format!("binary v{version} path (obsolete flags {obsolete}): {e}"))?;
                }
            }
        }
    }
    Ok(())
}
fn check_c01_on(m: &Model, ont: &Ontology) -> Check {
    for t in 0..m.n {
        let h = ont.hpo(m.ids[t]).ok_or("term missing")?;
        expect(&format!("ancestors of {}", m.ids[t]), grp(h.all_parent_ids()), m.idset(&m.anc[t]))?;
        expect(&format!("parents of {}", m.ids[t]), grp(h.parent_ids()), m.idset(&m.parents[t]))?;
        expect(&format!("children of {}", m.ids[t]), grp(h.children_ids()), m.idset(&m.children[t]))?;
        // the resolving iterators yield exactly those terms, each once
        let it = |v: Vec<u32>| { let mut v = v; v.sort_unstable(); v };
        expect(&format!("parents() of {}", m.ids[t]), it(h.parents().map(|x| x.id().as_u32()).collect()), m.idset(&m.parents[t]).into_iter().collect::<Vec<u32>>())?;
        expect(&format!("children() of {}", m.ids[t]), it(h.children().map(|x| x.id().as_u32()).collect()), m.idset(&m.children[t]).into_iter().collect::<Vec<u32>>())?;
        expect(&format!("all_parents() of {}", m.ids[t]), it(h.all_parents().map(|x| x.id().as_u32()).collect()), m.idset(&m.anc[t]).into_iter().collect::<Vec<u32>>())?;
        for u in 0..m.n {
            let hu = ont.hpo(m.ids[u]).unwrap();
            expect(&format!("{}.child_of({})", m.ids[t], m.ids[u]), h.child_of(&hu), m.anc[t].contains(&u))?;
            expect(&format!("{}.parent_of({})", m.ids[t], m.ids[u]), h.parent_of(&hu), m.anc[u].contains(&t))?;
        }
    }
    Ok(())
}

pub fn check_c02(c: &Case) -> Check {
    let m = Model::new(c);
    let ont = build(c, false)?;
    check_c02_on(&m, &ont).map_err(|e| format!("Builder path: {e}"))?;
    if c.idmap == 0 && c.n >= 2 && c.edges & 1 == 1 {
        // binary paths: the crate's own writer + reader, and the independent v3 / v2 / v1 encoder + reader
        let o = build(c, true)?;
        // (a file that is rejected is C07's / C08's to report, not an inheritance defect)
        if let Ok(Ok(o2)) = load(&o.as_bytes()) {
            check_c02_on(&m, &o2).map_err(|e| format!("as_bytes -> from_bytes path: {e}"))?;
        }
        check_sub_ontologies(&m, &o, check_c02_on)?;
        // text construction path (records without terms cannot be expressed; a load failure is C09's to report)
        if c.n <= 3 {
            let ct = text_case(c);
            if let Ok(ot) = build_text(&ct) {
                check_c02_on(&Model::new(&ct), &ot).map_err(|e| format!("text path (from_standard): {e}"))?;
            }
        }
        for version in [3u8, 2, 1] {
            let mut cv = c.clone();
            if version < 3 {
                cv.facts.retain(|f| f.0 != 2);
            }
            let mv = Model::new(&cv);
            let enc = Enc { version, reverse: c.order & 1 == 1, flags: vec![(false, 0); c.n], rename_term: None, rename_rec: None };
            if let Ok(Ok(o3)) = load(&encode(&cv, &enc)) {
                check_c02_on(&mv, &o3).map_err(|e| format!("binary v{version} path: {e}"))?;
            }
        }
    }
    Ok(())
}
fn check_c02_on(m: &Model, ont: &Ontology) -> Check {
    for t in 0..m.n {
        let h = ont.hpo(m.ids[t]).ok_or("term missing")?;
        let g: BTreeSet<u32> = h.gene_ids().iter().map(|x| x.as_u32()).collect();
        let o: BTreeSet<u32> = h.omim_disease_ids().iter().map(|x| x.as_u32()).collect();
        let r: BTreeSet<u32> = h.orpha_disease_ids().iter().map(|x| x.as_u32()).collect();
        expect(&format!("genes linked to {}", m.ids[t]), g, m.linked(0, t))?;
        expect(&format!("omim diseases linked to {}", m.ids[t]), o, m.linked(1, t))?;
        expect(&format!("orpha diseases linked to {}", m.ids[t]), r, m.linked(2, t))?;
        // resolving iterators resolve every id
        let it = |v: Vec<u32>| { let mut v = v; v.sort_unstable(); v };
        expect("genes() resolves every linked gene once", it(h.genes().map(|g| g.id().as_u32()).collect()), m.linked(0, t).into_iter().collect::<Vec<u32>>())?;
        expect("omim_diseases() resolves every linked disease once", it(h.omim_diseases().map(|g| g.id().as_u32()).collect()), m.linked(1, t).into_iter().collect::<Vec<u32>>())?;
        expect("orpha_diseases() resolves every linked disease once", it(h.orpha_diseases().map(|g| g.id().as_u32()).collect()), m.linked(2, t).into_iter().collect::<Vec<u32>>())?;
    }
    expect("number of genes", ont.genes().count(), m.recs[0].len())?;
    expect("number of omim diseases", ont.omim_diseases().count(), m.recs[1].len())?;
    expect("number of orpha diseases", ont.orpha_diseases().count(), m.recs[2].len())?;
    for (r, ds) in &m.recs[0] {
        let g = ont.gene(&GeneId::from(*r)).ok_or("gene record missing")?;
        expect(&format!("direct terms of gene {r}"), grp(g.hpo_terms()), m.idset(ds))?;
    }
    for (r, ds) in &m.recs[1] {
        let g = ont.omim_disease(&OmimDiseaseId::from(*r)).ok_or("omim record missing")?;
        expect(&format!("direct terms of omim {r}"), grp(g.hpo_terms()), m.idset(ds))?;
    }
    for (r, ds) in &m.recs[2] {
        let g = ont.orpha_disease(&OrphaDiseaseId::from(*r)).ok_or("orpha record missing")?;
        expect(&format!("direct terms of orpha {r}"), grp(g.hpo_terms()), m.idset(ds))?;
    }
    Ok(())
}

pub fn check_c03(c: &Case) -> Check {
    let m0 = Model::new(c);
    let ont = build(c, false)?;
    check_c03_on(&m0, &ont)?;
    // construction path "binary file": the only one that can mark terms obsolete (needs the two standard roots: id map 0);
    // on graphs up to 4 terms (the 5-term graphs of the thorough tier would spend ten minutes here)
    if c.n >= 2 && c.n <= 4 && c.edges & 1 == 1 {
        let c0 = Case { idmap: 0, ..c.clone() };
        let m0 = Model::new(&c0);
        let mut patterns: Vec<Vec<(bool, u32)>> = vec![vec![(false, 0); c.n], vec![(true, 0); c.n]];
        for o in 0..c.n {
            let mut f = vec![(false, 0u32); c.n];
            f[o].0 = true;
            patterns.push(f);
        }
        for flags in patterns {
            for version in [2u8, 3] {
                let mut cv = c0.clone();
                if version < 3 {
                    cv.facts.retain(|f| f.0 != 2);
                }
                let enc = Enc { version, reverse: false, flags: flags.clone(), rename_term: None, rename_rec: None };
                // a file that does not load is C08's to report
                if let Ok(Ok(ont)) = load(&encode(&cv, &enc)) {
                    let obs: Vec<u32> = (0..c.n).filter(|&x| flags[x].0).map(|x| m0.ids[x]).collect();
                    check_c03_on(&Model::new(&cv), &ont).map_err(|e| format!("loaded from a v{version} file in which {obs:?} are obsolete: {e}"))?;
                }
            }
        }
    }
    Ok(())
}
fn check_c03_on(m0: &Model, ont: &Ontology) -> Check {
    // C03 defines n as the number of records linked to the term *after inheritance*: the direct terms of every record and
    // the ancestor closure are taken from the read API (they are C02's / C01's to judge), the inheritance itself is
    // recomputed here -- a record counts for a term iff one of its direct terms is the term or a descendant of it
    let mut m = m0.observed(ont);
    m.obs_linked = None;
    for t in 0..m.n {
        let h = ont.hpo(m.ids[t]).ok_or("term missing")?;
        let ic = h.information_content();
        let exp = [
            ic_expected(m.recs[0].len(), m.linked(0, t).len()),
            ic_expected(m.recs[1].len(), m.linked(1, t).len()),
            ic_expected(m.recs[2].len(), m.linked(2, t).len()),
        ];
        // numeric equality (0.0 == -0.0): the property fixes the value, not the sign of zero
        expect(&format!("gene IC of {}", m.ids[t]), ic.gene(), exp[0])?;
        expect(&format!("omim IC of {}", m.ids[t]), ic.omim_disease(), exp[1])?;
        expect(&format!("orpha IC of {}", m.ids[t]), ic.orpha_disease(), exp[2])?;
        expect("get_kind(Gene)", ic.get_kind(&InformationContentKind::Gene), exp[0])?;
        expect("get_kind(Omim)", ic.get_kind(&InformationContentKind::Omim), exp[1])?;
        expect("get_kind(Orpha)", ic.get_kind(&InformationContentKind::Orpha), exp[2])?;
        for v in exp {
            if !(v.is_finite() && v >= 0.0) {
                return Err(format!("IC {v} is negative or not finite"));
            }
        }
    }
    Ok(())
}

pub fn check_c10(c: &Case) -> Check {
    check_c10_with(c, false)?;
    check_c10_with(c, true).map_err(|e| format!("with every id supplied twice: {e}"))
}
fn check_c10_with(c: &Case, dup: bool) -> Check {
    let m = Model::new(c);
    let ont = build_opts(c, false, dup)?;
    let present: BTreeSet<u32> = m.ids.iter().copied().collect();
    let mut probes: BTreeSet<u32> = [0u32, 1, 2, 117, 118, 119, 9_999_998, 9_999_999, 10_000_000, 10_000_001, u32::MAX].into_iter().collect();
    for &i in &m.ids {
        probes.insert(i);
        probes.insert(i.wrapping_add(1));
        probes.insert(i.wrapping_sub(1));
    }
    for p in probes {
        let got = panic::catch_unwind(panic::AssertUnwindSafe(|| ont.hpo(p).map(|t| (t.id().as_u32(), t.name().to_string()))));
        let got = got.map_err(|_| format!("hpo({p}) panicked"))?;
        let exp = if present.contains(&p) {
            let node = m.ids.iter().position(|&x| x == p).unwrap();
            Some((p, name_of(node)))
        } else {
            None
        };
        expect(&format!("hpo({p})"), got, exp)?;
    }
    expect("len()", ont.len(), m.n)?;
    let mut seen: Vec<u32> = ont.iter().map(|t| t.id().as_u32()).collect();
    seen.sort_unstable();
    expect("iter() yields every term exactly once", seen, present.iter().copied().collect::<Vec<u32>>())?;
    for k in 0..3 {
        for probe in [0u32, 1, 2, 3, 4, 77, u32::MAX] {
            let exp = m.recs[k].contains_key(&probe);
            let got = match k {
                0 => ont.gene(&GeneId::from(probe)).map(|g| g.id().as_u32()),
                1 => ont.omim_disease(&OmimDiseaseId::from(probe)).map(|g| g.id().as_u32()),
                _ => ont.orpha_disease(&OrphaDiseaseId::from(probe)).map(|g| g.id().as_u32()),
            };
            expect(&format!("record lookup kind {k} id {probe}"), got, if exp { Some(probe) } else { None })?;
        }
    }
    for (r, _) in &m.recs[0] {
        let g = ont.gene_by_name(&rec_name(0, *r)).ok_or("gene_by_name misses a gene")?;
        expect("gene_by_name", g.id().as_u32(), *r)?;
    }
    for (r, _) in &m.recs[0] {
        // the symbol is matched exactly: case variants, prefixes and extensions name no gene
        for q in [format!("g{r}"), format!("G{r} "), "G".to_string(), format!("G{r}0"), " ".to_string()] {
            if !m.recs[0].keys().any(|x| rec_name(0, *x) == q) {
                if let Some(g) = ont.gene_by_name(&q) {
                    return Err(format!("gene_by_name({q:?}) returns the gene {:?}", g.name()));
                }
            }
        }
    }
    // queries: ASCII and multi-byte fragments, every full name (a name contains itself), and near misses
    let mut queries: Vec<String> = ["o", "O", "", "O1", "o1", "2", "X", "\u{d6}", "\u{d6}2", "\u{d6}2 ", "\u{f6}2"].iter().map(|s| s.to_string()).collect();
    queries.extend(m.recs[1].keys().map(|r| rec_name(1, *r)));
    for q in &queries {
        let q = q.as_str();
        let found: BTreeSet<u32> = ont.omim_diseases_by_name(q).map(|d| d.id().as_u32()).collect();
        let exp: BTreeSet<u32> = m.recs[1].keys().filter(|x| rec_name(1, **x).contains(q)).copied().collect();
        expect(&format!("omim_diseases_by_name({q:?})"), found, exp.clone())?;
        let first = ont.omim_disease_by_name(q).map(|d| d.id().as_u32());
        if first.is_some() != !exp.is_empty() || first.map_or(false, |f| !exp.contains(&f)) {
            return Err(format!("omim_disease_by_name({q:?}) = {first:?}, the diseases whose name contains it are {exp:?}"));
        }
    }
    if ont.gene_by_name("no such gene").is_some() {
        return Err("gene_by_name finds a gene that does not exist".into());
    }
    // ontologies loaded from binary files (independent v1/v2/v3 encoder, both record orders, also with an unnamed term as
    // the LAST record of the term section): every term the file describes is found with its name, nothing else is,
    // len and iter agree. A file that does not load is C08's to report.
    if !dup && c.idmap == 0 && c.n >= 2 && c.edges & 1 == 1 {
        for version in [1u8, 2, 3] {
            let mut cv = c.clone();
            if version < 3 {
                cv.facts.retain(|f| f.0 != 2);
            }
            for reverse in [false, true] {
                let last = if reverse { 0 } else { m.n - 1 };
                for rename in [None, Some(EMPTY_NAME + last)] {
                    let enc = Enc { version, reverse, flags: vec![(false, 0); c.n], rename_term: rename, rename_rec: None };
                    let o = match load(&encode(&cv, &enc)) {
                        Ok(Ok(o)) => o,
                        _ => continue,
                    };
                    let what = format!("v{version} file (records reversed: {reverse}, last term unnamed: {})", rename.is_some());
                    for t in 0..m.n {
                        let exp_name = if rename == Some(EMPTY_NAME + t) { String::new() } else { name255(&name_of(t)) };
                        let got = o.hpo(m.ids[t]).map(|h| h.name().to_string());
                        expect(&format!("{what}: hpo({})", m.ids[t]), got, Some(exp_name))?;
                    }
                    for p in [0u32, 2, 117, 119, 9_999_999, 10_000_000, u32::MAX] {
                        if !present.contains(&p) && o.hpo(p).is_some() {
                            return Err(format!("{what}: hpo({p}) finds a term the file does not describe"));
                        }
                    }
                    expect(&format!("{what}: len()"), o.len(), m.n)?;
                    let mut seen: Vec<u32> = o.iter().map(|t| t.id().as_u32()).collect();
                    seen.sort_unstable();
                    expect(&format!("{what}: iter()"), seen, present.iter().copied().collect::<Vec<u32>>())?;
                }
            }
        }
    }
    Ok(())
}

fn group_of(s: &BTreeSet<u32>) -> HpoGroup {
    let mut g = HpoGroup::new();
    // insert in descending order so that insertion order differs from sorted order
    for x in s.iter().rev() {
        g.insert(*x);
    }
    g
}

fn check_group_algebra(a: &BTreeSet<u32>, b: &BTreeSet<u32>) -> Check {
    let ga = group_of(a);
    let gb = group_of(b);
    let it: Vec<u32> = ga.iter().map(|x| x.as_u32()).collect();
    expect("iteration is the ascending set", it.clone(), a.iter().copied().collect::<Vec<u32>>())?;
    expect("len", ga.len(), a.len())?;
    let u: Vec<u32> = (&ga | &gb).iter().map(|x| x.as_u32()).collect();
    expect(&format!("{a:?} | {b:?}"), u, a.union(b).copied().collect::<Vec<u32>>())?;
    let i: Vec<u32> = (&ga & &gb).iter().map(|x| x.as_u32()).collect();
    expect(&format!("{a:?} & {b:?}"), i, a.intersection(b).copied().collect::<Vec<u32>>())?;
    for probe in a.iter().chain(b.iter()).copied().chain([0u32, 7777]) {
        expect("contains", ga.contains(&probe.into()), a.contains(&probe))?;
        let mut exp = a.clone();
        exp.insert(probe);
        let plus: Vec<u32> = (&ga + HpoTermId::from(probe)).iter().map(|x| x.as_u32()).collect();
        expect(&format!("{a:?} + {probe}"), plus, exp.iter().copied().collect::<Vec<u32>>())?;
        let bor: Vec<u32> = (&ga | HpoTermId::from(probe)).iter().map(|x| x.as_u32()).collect();
        expect(&format!("{a:?} | {probe}"), bor, exp.iter().copied().collect::<Vec<u32>>())?;
        let mut g2 = group_of(a);
        expect("insert reports new", g2.insert(probe), !a.contains(&probe))?;
    }
    let from_vec: Vec<u32> = HpoGroup::from(a.iter().rev().copied().collect::<Vec<u32>>()).iter().map(|x| x.as_u32()).collect();
    expect("From<Vec<u32>>", from_vec, a.iter().copied().collect::<Vec<u32>>())?;
    let hs: std::collections::HashSet<HpoTermId> = a.iter().map(|x| HpoTermId::from(*x)).collect();
    let from_hs: Vec<u32> = HpoGroup::from(hs).iter().map(|x| x.as_u32()).collect();
    expect("From<HashSet>", from_hs, a.iter().copied().collect::<Vec<u32>>())?;
    let from_it: Vec<u32> = a.iter().rev().map(|x| HpoTermId::from(*x)).collect::<HpoGroup>().iter().map(|x| x.as_u32()).collect();
    expect("FromIterator", from_it, a.iter().copied().collect::<Vec<u32>>())?;
    // every constructor, from sequences in ascending / descending / rotated order, with every element repeated
    let asc: Vec<u32> = a.iter().copied().collect();
    let mut seqs: Vec<Vec<u32>> = vec![asc.clone(), asc.iter().rev().copied().collect()];
    seqs.push(asc.iter().flat_map(|x| [*x, *x]).collect());
    seqs.push(asc.iter().rev().flat_map(|x| [*x, *x]).collect());
    let mut rot = asc.clone();
    if !rot.is_empty() {
        let half = rot.len() / 2;
        rot.rotate_left(half);
    }
    seqs.push(rot.iter().chain(asc.iter()).copied().collect());
    for sq in seqs {
        let g1: Vec<u32> = HpoGroup::from(sq.clone()).iter().map(|x| x.as_u32()).collect();
        expect(&format!("From<Vec<u32>> of {sq:?}"), g1, asc.clone())?;
        let g2 = HpoGroup::from(sq.iter().map(|x| HpoTermId::from(*x)).collect::<Vec<HpoTermId>>());
        expect(&format!("From<Vec<HpoTermId>> of {sq:?}"), g2.iter().map(|x| x.as_u32()).collect::<Vec<u32>>(), asc.clone())?;
        expect(&format!("len of From<Vec<HpoTermId>> of {sq:?}"), g2.len(), asc.len())?;
        let g3: Vec<u32> = sq.iter().map(|x| HpoTermId::from(*x)).collect::<HpoGroup>().iter().map(|x| x.as_u32()).collect();
        expect(&format!("FromIterator of {sq:?}"), g3, asc.clone())?;
        let u: Vec<u32> = (&g2 | &gb).iter().map(|x| x.as_u32()).collect();
        expect(&format!("From<Vec>({sq:?}) | {b:?}"), u, a.union(b).copied().collect::<Vec<u32>>())?;
    }
    Ok(())
}

/// all pairs of subsets of a small universe (+ in thorough: sizes across the inline-storage limit of 30)
pub fn check_c12_groups(thorough: bool) -> Result<usize, String> {
    let uni: Vec<u32> = vec![1, 2, 3, 5, 8];
    let mut cases = 0;
    for ma in 0..(1u32 << uni.len()) {
        for mb in 0..(1u32 << uni.len()) {
            let a: BTreeSet<u32> = uni.iter().enumerate().filter(|(k, _)| ma >> k & 1 == 1).map(|(_, v)| *v).collect();
            let b: BTreeSet<u32> = uni.iter().enumerate().filter(|(k, _)| mb >> k & 1 == 1).map(|(_, v)| *v).collect();
            check_group_algebra(&a, &b).map_err(|e| format!("groups {a:?} {b:?}: {e}"))?;
            cases += 1;
        }
    }
    let sizes: &[usize] = if thorough { &[0, 1, 29, 30, 31, 45] } else { &[29, 31] };
    for &sa in sizes {
        for &sb in sizes {
            for off in [0u32, 1, 29, 30, 31, 100] {
                let a: BTreeSet<u32> = (1..=sa as u32).collect();
                let b: BTreeSet<u32> = (1..=sb as u32).map(|x| x + off).collect();
                check_group_algebra(&a, &b).map_err(|e| format!("groups 1..={sa} and {}..: {e}", 1 + off))?;
                let a2: BTreeSet<u32> = (1..=sa as u32).map(|x| 2 * x).collect();
                check_group_algebra(&a2, &b).map_err(|e| format!("groups 2*(1..={sa}) and {}..: {e}", 1 + off))?;
                cases += 2;
            }
        }
    }
    Ok(cases)
}

pub fn check_c12(c: &Case) -> Check {
    let m0 = Model::new(c);
    let ont = build(c, false)?;
    let m = m0.observed(&ont);
    for t in 0..m.n {
        for u in 0..m.n {
            let a = ont.hpo(m.ids[t]).unwrap();
            let b = ont.hpo(m.ids[u]).unwrap();
            let (at, au) = (m.idset(&m.anc[t]), m.idset(&m.anc[u]));
            expect("common_ancestor_ids", grp(&a.common_ancestor_ids(&b)), at.intersection(&au).copied().collect())?;
            let mut ats = at.clone();
            ats.insert(m.ids[t]);
            let mut aus = au.clone();
            aus.insert(m.ids[u]);
            expect("all_common_ancestor_ids", grp(&a.all_common_ancestor_ids(&b)), ats.intersection(&aus).copied().collect())?;
            expect("union_ancestor_ids", grp(&a.union_ancestor_ids(&b)), at.union(&au).copied().collect())?;
            expect("all_union_ancestor_ids", grp(&a.all_union_ancestor_ids(&b)), at.union(&au).copied().collect())?;
            let ca: BTreeSet<u32> = a.common_ancestors(&b).iter().map(|x| x.id().as_u32()).collect();
            expect("common_ancestors", ca, at.intersection(&au).copied().collect())?;
            let aca: BTreeSet<u32> = a.all_common_ancestors(&b).iter().map(|x| x.id().as_u32()).collect();
            expect("all_common_ancestors", aca, ats.intersection(&aus).copied().collect())?;
            let ua: BTreeSet<u32> = a.union_ancestors(&b).iter().map(|x| x.id().as_u32()).collect();
            expect("union_ancestors", ua, at.union(&au).copied().collect())?;
        }
    }
    Ok(())
}

/// idmap 0 only: node 0 = HP:1, node 1 = HP:118
pub fn check_c19(c: &Case) -> Check {
    let m = Model::new(c);
    let res = build(c, true);
    let has118 = m.n > 1;
    if !has118 {
        return match res {
            Err(_) => Ok(()),
            Ok(_) => Err("build_with_defaults succeeded without HP:0000118".into()),
        };
    }
    let ont = res?;
    // links and closure as the ontology reports them (C01 judges those)
    let m = m.observed(&ont);
    let modifier: BTreeSet<usize> = m.children[0].iter().copied().filter(|&x| x != 1).collect();
    let mut cats = modifier.clone();
    cats.extend(m.children[1].iter().copied());
    expect("modifier roots", grp(ont.modifier()), m.idset(&modifier))?;
    expect("categories", grp(ont.categories()), m.idset(&cats))?;
    for t in 0..m.n {
        let h = ont.hpo(m.ids[t]).unwrap();
        let is_mod = modifier.iter().any(|&r| r == t || m.anc[t].contains(&r));
        expect(&format!("is_modifier({})", m.ids[t]), h.is_modifier(), is_mod)?;
        let mut ec: Vec<u32> = cats.iter().filter(|&&r| r == t || m.anc[t].contains(&r)).map(|&r| m.ids[r]).collect();
        ec.sort_unstable();
        let gc: Vec<u32> = h.categories().iter().map(|x| x.as_u32()).collect();
        expect(&format!("categories({})", m.ids[t]), gc, ec)?;
    }
    Ok(())
}

pub fn check_c13(c: &Case) -> Check {
    let m0 = Model::new(c);
    if m0.n < 2 {
        return Ok(());
    }
    let ont = build(c, true)?;
    // closure, inherited annotations, modifier roots and categories as the ontology reports them (C01/C02/C19 judge those)
    let m = m0.observed(&ont);
    let node = |id: u32| m.ids.iter().position(|&x| x == id);
    let modifier: BTreeSet<usize> = ont.modifier().iter().filter_map(|x| node(x.as_u32())).collect();
    let cats: BTreeSet<usize> = ont.categories().iter().filter_map(|x| node(x.as_u32())).collect();
    for mask in 0..(1u32 << m.n) {
        let members: BTreeSet<usize> = (0..m.n).filter(|k| mask >> k & 1 == 1).collect();
        let g = group_of(&m.idset(&members));
        let set = HpoSet::new(&ont, g.clone());
        expect("len", set.len(), members.len())?;
        let got: BTreeSet<u32> = set.iter().map(|t| t.id().as_u32()).collect();
        expect("iter", got, m.idset(&members))?;
        // child_nodes: members without a descendant in the set
        let exp: BTreeSet<usize> = members.iter().copied().filter(|&x| !members.iter().any(|&y| m.anc[y].contains(&x))).collect();
        let got: BTreeSet<u32> = set.child_nodes().iter().map(|t| t.id().as_u32()).collect();
        expect(&format!("child_nodes of {:?}", m.idset(&members)), got, m.idset(&exp))?;
        // modifiers
        // (whether is_modifier() itself is right is C19's to say)
        let exp: BTreeSet<usize> = members.iter().copied().filter(|&x| !ont.hpo(m.ids[x]).unwrap().is_modifier()).collect();
        let _ = &modifier;
        let got: BTreeSet<u32> = set.without_modifier().iter().map(|t| t.id().as_u32()).collect();
        expect(&format!("without_modifier of {:?}", m.idset(&members)), got, m.idset(&exp))?;
        let mut s2 = HpoSet::new(&ont, g.clone());
        s2.remove_modifier();
        let got: BTreeSet<u32> = s2.iter().map(|t| t.id().as_u32()).collect();
        expect(&format!("remove_modifier of {:?}", m.idset(&members)), got, m.idset(&exp))?;
        // obsolete / replacement: none in builder-made ontologies: identity
        let got: BTreeSet<u32> = set.without_obsolete().iter().map(|t| t.id().as_u32()).collect();
        expect("without_obsolete", got, m.idset(&members))?;
        let mut s3 = HpoSet::new(&ont, g.clone());
        s3.remove_obsolete();
        expect("remove_obsolete", s3.len(), members.len())?;
        let got: BTreeSet<u32> = set.with_replaced_obsolete().iter().map(|t| t.id().as_u32()).collect();
        expect("with_replaced_obsolete", got, m.idset(&members))?;
        let mut s4 = HpoSet::new(&ont, g.clone());
        s4.replace_obsolete();
        expect("replace_obsolete", s4.len(), members.len())?;
        // unions of annotations
        for k in 0..3 {
            let mut exp: BTreeSet<u32> = BTreeSet::new();
            for &x in &members {
                exp.extend(m.linked(k, x));
            }
            let got: BTreeSet<u32> = match k {
                0 => set.gene_ids().iter().map(|x| x.as_u32()).collect(),
                1 => set.omim_disease_ids().iter().map(|x| x.as_u32()).collect(),
                _ => set.orpha_disease_ids().iter().map(|x| x.as_u32()).collect(),
            };
            expect(&format!("annotation union kind {k} of {:?}", m.idset(&members)), got, exp)?;
        }
        let mut gu: BTreeSet<u32> = BTreeSet::new();
        let mut ou: BTreeSet<u32> = BTreeSet::new();
        for &x in &members {
            gu.extend(m.linked(0, x));
            ou.extend(m.linked(1, x));
        }
        let ic = set.information_content().map_err(|e| format!("information_content failed: {e}"))?;
        expect("set gene IC", ic.gene(), ic_expected(m.recs[0].len(), gu.len()))?;
        expect("set omim IC", ic.omim_disease(), ic_expected(m.recs[1].len(), ou.len()))?;
        // category counts
        let mut expc: BTreeMap<u32, usize> = BTreeMap::new();
        for &x in &members {
            // (whether categories() of a term is right is C19's to say)
            for cid in ont.hpo(m.ids[x]).unwrap().categories() {
                *expc.entry(cid.as_u32()).or_default() += 1;
            }
        }
        let _ = &cats;
        let gotc: BTreeMap<u32, usize> = set.categories().iter().map(|(k, v)| (k.as_u32(), *v)).collect();
        expect(&format!("category counts of {:?}", m.idset(&members)), gotc, expc)?;
    }
    if c.facts.is_empty() && c.order == 0 && c.idmap == 0 && c.edges & 1 == 1 {
        check_c13_flags(c)?;
    }
    Ok(())
}

/// obsolete flags and replacements cannot be set through the Builder: ontologies with them are loaded from the
/// independent v3 encoder. Every (term, replacement) pair with and without the obsolete flag, and two terms sharing one
/// replacement; every subset of terms as the set.
fn check_c13_flags(c: &Case) -> Check {
    let m = Model::new(c);
    let n = m.n;
    let mut patterns: Vec<Vec<(bool, u32)>> = vec![];
    for o in 0..n {
        let mut f = vec![(false, 0u32); n];
        f[o].0 = true;
        patterns.push(f);
        for r in 0..n {
            if r == o {
                continue;
            }
            for obs in [true, false] {
                let mut f = vec![(false, 0u32); n];
                f[o] = (obs, m.ids[r]);
                patterns.push(f.clone());
                // a second term with the same replacement
                let o2 = (0..n).find(|&x| x != o && x != r);
                if let (Some(o2), true) = (o2, obs) {
                    f[o2] = (true, m.ids[r]);
                    patterns.push(f);
                }
            }
        }
    }
    for flags in patterns {
        let enc = Enc { version: 3, reverse: false, flags: flags.clone(), rename_term: None, rename_rec: None };
        let ont = match load(&encode(c, &enc)) {
            Ok(Ok(o)) => o,
            _ => return Err(format!("ontology with flags {flags:?} does not load")),
        };
        for mask in 0..(1u32 << n) {
            let members: BTreeSet<usize> = (0..n).filter(|k| mask >> k & 1 == 1).collect();
            let ids_in = m.idset(&members);
            let g = group_of(&ids_in);
            let set = HpoSet::new(&ont, g.clone());
            let what = format!("set {ids_in:?} in an ontology with (obsolete, replacement) = {flags:?}");
            // flags as the loaded ontology reports them (whether the decoder restored them is C08's to say)
            let flags: Vec<(bool, u32)> = (0..n).map(|x| {
                let h = ont.hpo(m.ids[x]).unwrap();
                (h.is_obsolete(), h.replacement_id().map_or(0, |r| r.as_u32()))
            }).collect();
            let exp_wo: BTreeSet<u32> = members.iter().filter(|&&x| !flags[x].0).map(|&x| m.ids[x]).collect();
            let got: BTreeSet<u32> = set.without_obsolete().iter().map(|t| t.id().as_u32()).collect();
            expect(&format!("without_obsolete of {what}"), got, exp_wo.clone())?;
            let mut s3 = HpoSet::new(&ont, g.clone());
            s3.remove_obsolete();
            let got: Vec<u32> = s3.iter().map(|t| t.id().as_u32()).collect();
            expect(&format!("remove_obsolete of {what}"), got, exp_wo.into_iter().collect::<Vec<u32>>())?;
            let exp_rep: BTreeSet<u32> = members.iter().map(|&x| if flags[x].1 != 0 { flags[x].1 } else { m.ids[x] }).collect();
            let got: Vec<u32> = set.with_replaced_obsolete().iter().map(|t| t.id().as_u32()).collect();
            expect(&format!("with_replaced_obsolete of {what}"), got, exp_rep.iter().copied().collect::<Vec<u32>>())?;
            let mut s4 = HpoSet::new(&ont, g.clone());
            s4.replace_obsolete();
            let got: Vec<u32> = s4.iter().map(|t| t.id().as_u32()).collect();
            expect(&format!("replace_obsolete of {what}"), got, exp_rep.iter().copied().collect::<Vec<u32>>())?;
            expect(&format!("len after replace_obsolete of {what}"), s4.len(), exp_rep.len())?;
        }
    }
    Ok(())
}

/// failing builder calls interleaved with the successful ones of the case must have no effect
pub fn check_c15(c: &Case) -> Check {
    let m = Model::new(c);
    let clean = walk(&build(c, false)?);
    // two ids that name no term of the case (0 is one of them unless the id map gives a term the id 0)
    let missing: Vec<u32> = [77_777u32, 0, 99].into_iter().filter(|x| !m.ids.contains(x)).take(2).collect();
    let r = panic::catch_unwind(|| -> Result<String, String> {
        let mut b = Builder::new();
        for node in node_order(c.n, c.order) {
            b.new_term(&name_of(node), m.ids[node]);
        }
        let mut b = b.terms_complete();
        for (k, (i, j)) in pairs(c.n).into_iter().enumerate() {
            for &mi in &missing {
                if b.add_parent(m.ids[i], mi).is_ok() {
                    return Err(format!("add_parent({}, {mi}) on a missing child succeeded", m.ids[i]));
                }
                if b.add_parent(mi, m.ids[j]).is_ok() {
                    return Err(format!("add_parent({mi}, {}) on a missing parent succeeded", m.ids[j]));
                }
            }
            if c.edges >> k & 1 == 1 {
                b.add_parent(m.ids[i], m.ids[j]).map_err(|e| format!("{e}"))?;
            }
        }
        let mut b = b.connect_all_terms();
        for &mi in &missing {
            if b.annotate_gene(GeneId::from(901), "X", mi.into()).is_ok()
                || b.annotate_omim_disease(OmimDiseaseId::from(902), "X", mi.into()).is_ok()
                || b.annotate_orpha_disease(OrphaDiseaseId::from(903), "X", mi.into()).is_ok()
            {
                return Err("annotate_* on a missing term succeeded".into());
            }
        }
        for &(k, r, d) in &c.facts {
            if d == NO_TERM {
                match k {
                    0 => b.add_gene(&rec_name(0, r), GeneId::from(r)),
                    1 => {
                        b.add_omim_disease(&rec_name(1, r), OmimDiseaseId::from(r));
                    }
                    _ => {
                        b.add_orpha_disease(&rec_name(2, r), OrphaDiseaseId::from(r));
                    }
                }
                continue;
            }
            let t: HpoTermId = m.ids[d as usize].into();
            for &mi in &missing {
                // an existing record annotated to a missing term: error, record unchanged
                let bad = match k {
                    0 => b.annotate_gene(GeneId::from(r), "X", mi.into()).is_ok(),
                    1 => b.annotate_omim_disease(OmimDiseaseId::from(r), "X", mi.into()).is_ok(),
                    _ => b.annotate_orpha_disease(OrphaDiseaseId::from(r), "X", mi.into()).is_ok(),
                };
                if bad {
                    return Err("annotate_* on a missing term succeeded".into());
                }
            }
            match k {
                0 => b.annotate_gene(GeneId::from(r), &rec_name(0, r), t),
                1 => b.annotate_omim_disease(OmimDiseaseId::from(r), &rec_name(1, r), t),
                _ => b.annotate_orpha_disease(OrphaDiseaseId::from(r), &rec_name(2, r), t),
            }
            .map_err(|e| format!("{e}"))?;
        }
        let ont = b.calculate_information_content().map_err(|e| format!("{e}"))?.build_minimal();
        Ok(walk(&ont))
    });
    match r {
        Err(_) => Err("read API panicked after rejected builder calls".into()),
        Ok(Err(e)) => Err(e),
        Ok(Ok(w)) => {
            if w == clean {
                Ok(())
            } else {
                Err(format!("rejected calls changed the ontology:\n with: {w}\n without: {clean}"))
            }
        }
    }
}

/// the same facts in every supply order give observationally identical ontologies
pub fn check_c16(c: &Case) -> Check {
    let base = walk(&build(c, false)?);
    for order in 0..4u8 {
        let mut c2 = c.clone();
        c2.order = order;
        if order & 2 == 2 {
            c2.facts.reverse();
        }
        let w = walk(&build(&c2, false)?);
        if w != base {
            return Err(format!("supply order {order} gives a different ontology:\n {w}\n vs order {}:\n {base}", c.order));
        }
    }
    // text files: stanzas and rows in every supply order (a load failure is C09's to report)
    if c.idmap == 0 && c.n > 1 && c.n <= 3 && c.edges & 1 == 1 {
        let ct = text_case(c);
        let mut first: Option<String> = None;
        for order in 0..4u8 {
            let mut c2 = ct.clone();
            c2.order = order;
            if order & 2 == 2 {
                c2.facts.reverse();
            }
            if let Ok(o) = build_text(&c2) {
                let w = walk(&o);
                match &first {
                    None => first = Some(w),
                    Some(f) if *f != w => return Err(format!("text files with stanzas / rows in supply order {order} give a different ontology:\n {w}\n vs:\n {f}")),
                    _ => {}
                }
            }
        }
    }
    // binary round trip through the records in hash-map order
    if c.idmap == 0 && c.n > 1 && c.edges & 1 == 1 {
        let o = build(c, true)?;
        // a rejected file is C07's to report; order independence is judged on what loads
        if let Ok(Ok(o2)) = load(&o.as_bytes()) {
            if walk_with(&o, true) != walk(&o2) {
                return Err("binary round trip differs".into());
            }
        }
        // binary records in both orders (terms, parent records, parent ids within a record, gene and disease
        // records, term ids within a record): the independent encoder writes the same facts forwards and backwards
        for version in [1u8, 2, 3] {
            let mut cv = c.clone();
            if version < 3 {
                cv.facts.retain(|f| f.0 != 2);
            }
            // without flags, and (v2/v3) with each single term obsolete and replaced by the next one
            let m = Model::new(c);
            let mut patterns: Vec<Vec<(bool, u32)>> = vec![vec![(false, 0); c.n]];
            if version >= 2 {
                for t in 0..c.n {
                    let mut f = vec![(false, 0u32); c.n];
                    f[t] = (true, m.ids[(t + 1) % c.n]);
                    patterns.push(f);
                }
            }
            for flags in patterns {
                let e = |reverse: bool| Enc { version, reverse, flags: flags.clone(), rename_term: None, rename_rec: None };
                if let (Ok(Ok(a)), Ok(Ok(b))) = (load(&encode(&cv, &e(false))), load(&encode(&cv, &e(true)))) {
                    let (wa, wb) = (walk(&a), walk(&b));
                    if wa != wb {
                        return Err(format!("v{version} file (flags {flags:?}) with its records in reverse order gives a different ontology:\n {wb}\n vs:\n {wa}"));
                    }
                }
            }
        }
    }
    Ok(())
}

fn c07_round_trip(o: &Ontology, cut_names: bool) -> Result<Ontology, String> {
    let bytes = panic::catch_unwind(panic::AssertUnwindSafe(|| o.as_bytes())).map_err(|_| "as_bytes panicked")?;
    let r = panic::catch_unwind(|| Ontology::from_bytes(&bytes));
    let o2 = match r {
        Err(_) => return Err("from_bytes panicked on the writer's output".into()),
        Ok(Err(e)) => return Err(format!("from_bytes rejected the writer's output: {e}")),
        Ok(Ok(o2)) => o2,
    };
    let (w1, w2) = (walk_with(o, cut_names), walk(&o2));
    if w1 != w2 {
        return Err(format!("round trip differs:\n before: {w1}\n after:  {w2}"));
    }
    Ok(o2)
}

/// as_bytes -> from_bytes is the identity on observations (idmap 0 with edge HP:1 -> HP:118)
pub fn check_c07(c: &Case) -> Check {
    if c.n < 2 || c.edges & 1 == 0 {
        return Ok(());
    }
    let o = build(c, true)?;
    let o2 = c07_round_trip(&o, true)?;
    // (the two additions below run on graphs up to 4 terms: on the 5-term graphs of the thorough tier they would take a
    // quarter of an hour)
    if c.n > 4 {
        return Ok(());
    }
    // record ids at the upper border of u32
    if !c.facts.is_empty() {
        let mut cb = c.clone();
        for f in cb.facts.iter_mut() {
            f.1 = u32::MAX - f.1;
        }
        let ob = build(&cb, true)?;
        c07_round_trip(&ob, true).map_err(|e| format!("with record ids counted down from u32::MAX: {e}"))?;
    }
    // obsolete and replaced terms cannot be made through the Builder: ontologies loaded from the independent v3
    // encoder (every single term obsolete and replaced by the next one; all obsolete) are written and read again
    let mut patterns: Vec<Vec<(bool, u32)>> = vec![vec![(true, 0); c.n]];
    let m = Model::new(c);
    for t in 0..c.n {
        let mut f = vec![(false, 0u32); c.n];
        f[t] = (true, m.ids[(t + 1) % c.n]);
        patterns.push(f.clone());
        f[t].0 = false;
        patterns.push(f);
    }
    for flags in patterns {
        let enc = Enc { version: 3, reverse: false, flags: flags.clone(), rename_term: None, rename_rec: None };
        // a file that does not load is C08's to report
        if let Ok(Ok(of)) = load(&encode(c, &enc)) {
            c07_round_trip(&of, false).map_err(|e| format!("ontology loaded from a v3 file with (obsolete, replacement) = {flags:?}: {e}"))?;
        }
    }
    let cmp = o.compare(&o2);
    // (names beyond the documented 255-byte limit are cut by the format: compare() then rightly reports a rename)
    let any_long = o.iter().any(|t| t.name().len() > 255) || o.genes().any(|g| g.name().len() > 255);
    if !any_long && !(cmp.added_hpo_terms().is_empty() && cmp.removed_hpo_terms().is_empty() && cmp.changed_hpo_terms().is_empty()
        && cmp.added_genes().is_empty() && cmp.removed_genes().is_empty() && cmp.changed_genes().is_empty()
        && cmp.added_omim_diseases().is_empty() && cmp.removed_omim_diseases().is_empty() && cmp.changed_omim_diseases().is_empty()
        && cmp.added_orpha_diseases().is_empty() && cmp.removed_orpha_diseases().is_empty() && cmp.changed_orpha_diseases().is_empty())
    {
        return Err("compare() reports differences after a binary round trip".into());
    }
    Ok(())
}

// ------------------------------------------------------------------------------------------------ enumeration
pub fn fact_sets(n: usize, thorough: bool) -> Vec<Vec<(u8, u32, u8)>> {
    let mut v: Vec<Vec<(u8, u32, u8)>> = vec![vec![]];
    // one record of each kind on one node; totals differ per kind
    for d in 0..n as u8 {
        v.push(vec![(0, 1, d), (1, 2, d), (1, 3, 0), (2, 4, d), (2, 5, 0), (2, 6, 0)]);
    }
    // records without any term: they count towards the totals of their kind
    for d in 0..n as u8 {
        v.push(vec![(0, 1, d), (0, 9, NO_TERM), (1, 2, d), (1, 9, NO_TERM), (1, 8, NO_TERM), (2, 4, d), (2, 9, NO_TERM), (2, 8, NO_TERM), (2, 7, NO_TERM)]);
    }
    // ordered pairs of facts for the same record (both orders are different cases), per kind
    for k in 0..3u8 {
        for d1 in 0..n as u8 {
            for d2 in 0..n as u8 {
                if !thorough && (d1 + d2 + k) % 2 == 1 && n > 3 {
                    continue;
                }
                v.push(vec![(k, 1, d1), (k, 1, d2), (k, 2, 0), ((k + 1) % 3, 1, d2)]);
            }
        }
    }
    v
}

pub fn cases(thorough: bool, idmaps: &[u8], with_facts: bool) -> Vec<Case> {
    // without annotation facts the 5-term graphs are cheap enough for the quick tier
    let big = thorough || !with_facts;
    let maxn = if big { 5 } else { 4 };
    let mut out = vec![];
    for n in 1..=maxn {
        let np = pairs(n).len();
        for edges in 0..(1u32 << np) {
            for &idmap in idmaps {
                for order in 0..(if big { 4 } else { 2 }) {
                    if with_facts {
                        // at n = 5 the fact sets are thinned out in quick mode only
                        for f in fact_sets(n, thorough || n < 4) {
                            out.push(Case { n, edges, idmap, order, facts: f });
                        }
                    } else {
                        out.push(Case { n, edges, idmap, order, facts: vec![] });
                    }
                }
            }
        }
    }
    out
}

/// xorshift generator for the random larger-scope cases (seeded by VERIF_SEED)
pub struct Rng(pub u64);
impl Rng {
    pub fn next(&mut self) -> u64 {
        let mut x = self.0;
        x ^= x << 13;
        x ^= x >> 7;
        x ^= x << 17;
        self.0 = x;
        x
    }
    pub fn below(&mut self, n: u64) -> u64 {
        self.next() % n
    }
}
/// random ontologies beyond the exhaustive bound: `lo..=hi` terms, each possible link present with probability ~1/3,
/// up to 8 annotation facts (some for records without a term)
pub fn random_cases(seed: u64, count: usize, lo: usize, hi: usize, idmaps: &[u8], with_facts: bool) -> Vec<Case> {
    let mut r = Rng(seed.wrapping_mul(0x9E37_79B9_7F4A_7C15) ^ 0xD1B5_4A32_D192_ED03);
    let mut out = vec![];
    for _ in 0..count {
        let n = lo + r.below((hi - lo + 1) as u64) as usize;
        let np = pairs(n).len();
        let mut edges = 0u32;
        for k in 0..np {
            if r.below(3) == 0 {
                edges |= 1 << k;
            }
        }
        // keep the standard roots connected in most cases so that the binary / category oracles apply
        if r.below(4) != 0 {
            edges |= 1;
        }
        let mut facts = vec![];
        if with_facts {
            for _ in 0..r.below(9) {
                let kind = r.below(3) as u8;
                let rec = 1 + r.below(4) as u32;
                let node = if r.below(8) == 0 { NO_TERM } else { r.below(n as u64) as u8 };
                facts.push((kind, rec, node));
            }
        }
        out.push(Case { n, edges, idmap: idmaps[r.below(idmaps.len() as u64) as usize], order: r.below(4) as u8, facts });
    }
    out
}

pub static THOROUGH: std::sync::atomic::AtomicBool = std::sync::atomic::AtomicBool::new(false);

pub fn run_parallel(cs: Vec<Case>, f: fn(&Case) -> Check) -> Result<usize, (Case, String)> {
    let n = cs.len();
    let nthreads = std::thread::available_parallelism().map(|x| x.get()).unwrap_or(4).min(16);
    let cs = std::sync::Arc::new(cs);
    let mut handles = vec![];
    for t in 0..nthreads {
        let cs = cs.clone();
        handles.push(std::thread::spawn(move || -> Option<(usize, String)> {
            let mut i = t;
            while i < cs.len() {
                let c = &cs[i];
                let r = panic::catch_unwind(|| f(c));
                match r {
                    Err(_) => return Some((i, "panicked".to_string())),
                    Ok(Err(e)) => return Some((i, e)),
                    Ok(Ok(())) => {}
                }
                i += nthreads;
            }
            None
        }));
    }
    let mut first: Option<(usize, String)> = None;
    for h in handles {
        if let Ok(Some((i, e))) = h.join() {
            if first.as_ref().map_or(true, |(j, _)| i < *j) {
                first = Some((i, e));
            }
        }
    }
    match first {
        Some((i, e)) => Err((cs[i].clone(), e)),
        None => Ok(n),
    }
}

pub fn oracle(prop: &str) -> Option<(fn(&Case) -> Check, &'static [u8], bool)> {
    // (oracle, id maps, with annotation facts)
    Some(match prop {
        "C01" => (check_c01, &[0, 1, 2, 3, 4], false),
        "C02" => (check_c02, &[0, 1], true),
        "C03" => (check_c03, &[1], true),
        "C04" => (check_c04, &[1], true),
        "C05" => (check_c05, &[1], false),
        "C06" => (check_c06, &[1], true),
        "C07" => (check_c07, &[0], true),
        "C08" => (check_c08, &[0], true),
        "C18" => (check_c18, &[0, 1], true),
        "C10" => (check_c10, &[0, 2, 4], true),
        "C12" => (check_c12, &[1, 2], false),
        "C13" => (check_c13, &[0], true),
        "C15" => (check_c15, &[1, 4], true),
        "C16" => (check_c16, &[0, 1], true),
        "C19" => (check_c19, &[0], false),
        _ => return None,
    })
}

pub fn explore(prop: &str, thorough: bool) -> i32 {
    panic::set_hook(Box::new(|_| {}));
    if prop == "C20" {
        return match check_c20_all(thorough) {
            Ok((ids, texts)) => {
                println!("EXPLORE-OK property={prop} cases={} distinct_dags={} max_terms=0 sample=ids_0..=10000000+borders_and_{texts}_texts", ids + texts, ids + texts);
                0
            }
            Err(e) => {
                println!("EXPLORE-VIOLATION property={prop} case=ids what={}", e.replace('\n', " | "));
                1
            }
        };
    }
    if prop == "C17" {
        return match check_c17_all(thorough) {
            Ok(n) => {
                println!("EXPLORE-OK property={prop} cases={n} distinct_dags={n} max_terms=12 sample=linkage");
                0
            }
            Err(e) => {
                println!("EXPLORE-VIOLATION property={prop} case=linkage what={}", e.replace('\n', " | "));
                1
            }
        };
    }
    let Some((f, idmaps, with_facts)) = oracle(prop) else {
        println!("EXPLORE-NONE property={prop} no bounded explorer");
        return 0;
    };
    let mut extra = 0;
    if prop == "C12" {
        match check_c12_groups(thorough) {
            Ok(n) => extra = n,
            Err(e) => {
                println!("EXPLORE-VIOLATION property={prop} case=groups what={}", e.replace('\n', " | "));
                return 1;
            }
        }
    }
    if prop == "C06" {
        match check_c06_large(thorough) {
            Ok(n) => extra = n,
            Err(e) => {
                println!("EXPLORE-VIOLATION property={prop} case=large what={}", e.replace('\n', " | "));
                return 1;
            }
        }
    }
    THOROUGH.store(thorough, std::sync::atomic::Ordering::Relaxed);
    let mut cs = cases(thorough, idmaps, with_facts);
    // drop the cases an oracle would skip, so that the reported count is what was really explored
    match prop {
        // each case is compared with ~40-60 edited variants: the 5-term graphs only with the empty and one mixed fact set
        "C18" => cs.retain(|c| c.order == 0 && (c.idmap == 0 || c.n <= 3 || thorough) && (c.n < 5 || (c.idmap == 0 && (c.facts.is_empty() || (c.facts.len() == 6 && c.facts[0].2 == 0))))),
        // five builds per case
        "C16" => cs.retain(|c| c.order == 0 && (c.n < 5 || c.facts.len() != 4)),
        "C08" => cs.retain(|c| c.n >= 2 && c.edges & 1 == 1),
        _ => {}
    }
    if prop == "C04" && !thorough {
        // the distance-based similarity needs 5 terms to tell a detour from the direct descent: add the fact-free 5-term graphs
        cs.extend(cases(false, idmaps, false).into_iter().filter(|c| c.n == 5 && c.order == 0));
    }
    // beyond the exhaustive bound: random larger ontologies (size cap per oracle cost), seeded by VERIF_SEED
    let seed: u64 = std::env::var("VERIF_SEED").ok().and_then(|s| s.parse().ok()).unwrap_or(0);
    let (rcount, rhi) = match prop {
        "C05" => (if thorough { 60 } else { 12 }, 6),
        "C18" => (if thorough { 40 } else { 8 }, 6),
        "C08" => (if thorough { 300 } else { 60 }, 7),
        "C13" | "C06" => (if thorough { 600 } else { 100 }, 7),
        "C16" => (if thorough { 600 } else { 100 }, 8),
        _ => (if thorough { 3000 } else { 400 }, 8),
    };
    let n_exhaustive = cs.len();
    let mut rc = random_cases(seed + 1, rcount, 5, rhi, idmaps, with_facts);
    match prop {
        "C18" | "C16" => rc.iter_mut().for_each(|c| c.order = 0),
        "C08" => rc.iter_mut().for_each(|c| {
            c.edges |= 1;
            c.order = 0;
        }),
        _ => {}
    }
    cs.extend(rc);
    let n_random = cs.len() - n_exhaustive;
    let distinct: BTreeSet<(usize, u32)> = cs.iter().map(|c| (c.n, c.edges)).collect();
    let sample = cs.get(cs.len() / 2).map(|c| c.id()).unwrap_or_default();
    match run_parallel(cs, f) {
        Ok(n) => {
            println!(
                "EXPLORE-OK property={prop} cases={} distinct_dags={} max_terms={} random_cases={n_random} random_max_terms={rhi} sample={sample}",
                n + extra,
                distinct.len(),
                if thorough || !with_facts || prop == "C04" { 5 } else { 4 }
            );
            0
        }
        Err((c, e)) => {
            println!("EXPLORE-VIOLATION property={prop} case={} what={}", c.id(), e.replace('\n', " | "));
            1
        }
    }
}

pub fn replay_case(prop: &str, id: &str) -> (bool, String) {
    panic::set_hook(Box::new(|_| {}));
    THOROUGH.store(true, std::sync::atomic::Ordering::Relaxed);
    if id == "ids" {
        return match check_c20_all(true) {
            Ok(_) => (false, "id rendering / parsing as specified".into()),
            Err(e) => (true, e),
        };
    }
    if id == "linkage" {
        return match check_c17_all(true) {
            Ok(_) => (false, "clustering as specified".into()),
            Err(e) => (true, e),
        };
    }
    if id == "large" {
        return match check_c06_large(true) {
            Ok(_) => (false, "large-population enrichment as specified".into()),
            Err(e) => (true, e),
        };
    }
    if id == "groups" {
        return match check_c12_groups(true) {
            Ok(_) => (false, "group algebra as specified".into()),
            Err(e) => (true, e),
        };
    }
    let Some((f, _, _)) = oracle(prop) else {
        return (false, format!("no explorer for {prop}"));
    };
    let Some(c) = Case::parse(id) else {
        return (false, format!("cannot parse case {id}"));
    };
    match panic::catch_unwind(|| f(&c)) {
        Err(_) => (true, format!("case {id}: panicked")),
        Ok(Err(e)) => (true, format!("case {id} (terms {:?}): {e}", ids(c.idmap, c.n))),
        Ok(Ok(())) => (false, format!("case {id}: as specified")),
    }
}

// ================================================================================================ C04 / C05 / C06 / C08 / C18
use hpo::similarity::{Builtins, CachedSimilarity, Similarity, StandardCombiner};
use hpo::HpoTerm;

fn close(a: f32, b: f32) -> bool {
    if a.is_nan() || b.is_nan() {
        return false;
    }
    a == b || (a - b).abs() <= 1e-5 * (1.0 + a.abs().max(b.abs()))
}

fn ic_of(ont: &Ontology, id: u32, kind: InformationContentKind) -> f32 {
    ont.hpo(id).unwrap().information_content().get_kind(&kind)
}

/// shortest number of parent links from node t up to node c (c must be t or an ancestor of t)
fn dist_up(m: &Model, t: usize, c: usize) -> Option<usize> {
    if t == c {
        return Some(0);
    }
    let mut best: Option<usize> = None;
    for &p in &m.parents[t] {
        if let Some(d) = dist_up(m, p, c) {
            best = Some(best.map_or(d + 1, |b| b.min(d + 1)));
        }
    }
    best
}

pub fn check_c04(c: &Case) -> Check {
    let m0 = Model::new(c);
    let ont = build(c, false)?;
    let m = m0.observed(&ont);
    let kinds = [InformationContentKind::Gene, InformationContentKind::Omim, InformationContentKind::Orpha];
    for (ki, kind) in kinds.iter().enumerate() {
        // the documented method names select the algorithm they name (any letter case)
        let names: [(&str, Builtins); 16] = [
            ("graphic", Builtins::GraphIc(*kind)), ("GraphIC", Builtins::GraphIc(*kind)), ("resnik", Builtins::Resnik(*kind)),
            ("distance", Builtins::Distance(*kind)), ("dist", Builtins::Distance(*kind)),
            ("informationcoefficient", Builtins::InformationCoefficient(*kind)), ("ic", Builtins::InformationCoefficient(*kind)),
            ("jc", Builtins::Jc(*kind)), ("jc2", Builtins::Jc(*kind)), ("JC", Builtins::Jc(*kind)), ("lin", Builtins::Lin(*kind)),
            ("relevance", Builtins::Relevance(*kind)), ("rel", Builtins::Relevance(*kind)), ("mutation", Builtins::Mutation(*kind)),
            ("mut", Builtins::Mutation(*kind)), ("Resnik", Builtins::Resnik(*kind)),
        ];
        for (name, exp) in names {
            match Builtins::new(name, *kind) {
                Ok(b) if format!("{b:?}") == format!("{exp:?}") => {}
                Ok(b) => return Err(format!("Builtins::new({name:?}, {kind:?}) selects {b:?}, documented: {exp:?}")),
                Err(e) => return Err(format!("Builtins::new({name:?}, {kind:?}) fails: {e}")),
            }
        }
        if Builtins::new("no such method", *kind).is_ok() {
            return Err("Builtins::new accepts an unknown method name".into());
        }
        for t in 0..m.n {
            for u in 0..m.n {
                let a = ont.hpo(m.ids[t]).unwrap();
                let b = ont.hpo(m.ids[u]).unwrap();
                let ic = |x: usize| ic_of(&ont, m.ids[x], *kind);
                // common ancestors including the terms themselves / union of the proper ancestor sets, in ascending id order
                let mut at = m.anc[t].clone();
                at.insert(t);
                let mut au = m.anc[u].clone();
                au.insert(u);
                let mut common: Vec<usize> = at.intersection(&au).copied().collect();
                common.sort_by_key(|&x| m.ids[x]);
                let mut union: Vec<usize> = m.anc[t].union(&m.anc[u]).copied().collect();
                union.sort_by_key(|&x| m.ids[x]);
                let resnik = common.iter().fold(0.0f32, |mx, &x| if ic(x) > mx { ic(x) } else { mx });
                let graphic = if t == u {
                    1.0
                } else {
                    let un: f32 = union.iter().map(|&x| ic(x)).sum();
                    if un == 0.0 { 0.0 } else { common.iter().map(|&x| ic(x)).sum::<f32>() / un }
                };
                let comb = ic(t) + ic(u);
                let lin = if comb == 0.0 { 0.0 } else { 2.0 * resnik / comb };
                let jc = if t == u { 1.0 } else if ic(t) == 0.0 || ic(u) == 0.0 { 0.0 } else { 1.0 / (ic(t) + ic(u) - 2.0 * resnik + 1.0) };
                let rel = lin * (1.0 - (resnik * -1.0).exp());
                let icoef = lin * (1.0 - (1.0 / (1.0 + resnik)));
                let d = common.iter().filter_map(|&x| Some(dist_up(&m, t, x)? + dist_up(&m, u, x)?)).min();
                let dist = d.map_or(0.0, |n| 1.0 / (n as f32 + 1.0));
                let (la, lb) = (m.linked(ki, t), m.linked(ki, u));
                let all = la.union(&lb).count();
                let mutation = if t == u { 1.0 } else if all == 0 { 0.0 } else { la.intersection(&lb).count() as f32 / all as f32 };
                let table: [(&str, Builtins, f32); 8] = [
                    ("GraphIC", Builtins::GraphIc(*kind), graphic),
                    ("Resnik", Builtins::Resnik(*kind), resnik),
                    ("Lin", Builtins::Lin(*kind), lin),
                    ("Jc", Builtins::Jc(*kind), jc),
                    ("Relevance", Builtins::Relevance(*kind), rel),
                    ("InformationCoefficient", Builtins::InformationCoefficient(*kind), icoef),
                    ("Distance", Builtins::Distance(*kind), dist),
                    ("Mutation", Builtins::Mutation(*kind), mutation),
                ];
                for (name, alg, exp) in table {
                    let got = alg.calculate(&a, &b);
                    let rev = alg.calculate(&b, &a);
                    if !(got.is_finite() && got >= 0.0) {
                        return Err(format!("{name}({kind:?}) of ({}, {}) = {got}: not a finite number >= 0", m.ids[t], m.ids[u]));
                    }
                    if !close(got, exp) {
                        return Err(format!("{name}({kind:?}) of ({}, {}) = {got}, documented formula gives {exp}", m.ids[t], m.ids[u]));
                    }
                    if !close(got, rev) {
                        return Err(format!("{name}({kind:?}) is not symmetric on ({}, {}): {got} vs {rev}", m.ids[t], m.ids[u]));
                    }
                    let via_term = a.similarity_score(&b, &alg);
                    if !close(got, via_term) {
                        return Err(format!("similarity_score differs from calculate for {name}"));
                    }
                }
                if t == u {
                    for alg in [Builtins::GraphIc(*kind), Builtins::Jc(*kind), Builtins::Distance(*kind), Builtins::Mutation(*kind)] {
                        if alg.calculate(&a, &b) != 1.0 {
                            return Err(format!("{alg:?} of a term with itself is not 1"));
                        }
                    }
                }
            }
        }
    }
    Ok(())
}

/// an asymmetric user-supplied similarity
struct Asym;
impl Similarity for Asym {
    fn calculate(&self, a: &HpoTerm, b: &HpoTerm) -> f32 {
        ((a.id().as_u32() % 97) * 7 + (b.id().as_u32() % 89)) as f32 / 10.0
    }
}
/// a user similarity that is never positive (the combiners take maxima: all-negative rows and columns must keep them)
struct Neg;
impl Similarity for Neg {
    fn calculate(&self, a: &HpoTerm, b: &HpoTerm) -> f32 {
        -(((a.id().as_u32() % 13) * 3 + (b.id().as_u32() % 11) * 5 + 1) as f32) / 8.0
    }
}
struct Sym;
impl Similarity for Sym {
    fn calculate(&self, a: &HpoTerm, b: &HpoTerm) -> f32 {
        ((a.id().as_u32() % 97) * (b.id().as_u32() % 97)) as f32 / 100.0 + 0.5
    }
}

fn combine_expected(mat: &[Vec<f32>], which: usize) -> f32 {
    let rows = mat.len();
    let cols = if rows == 0 { 0 } else { mat[0].len() };
    if rows == 0 || cols == 0 {
        return 0.0;
    }
    let rmax: Vec<f32> = mat.iter().map(|r| r.iter().copied().fold(f32::MIN, f32::max)).collect();
    let cmax: Vec<f32> = (0..cols).map(|j| mat.iter().map(|r| r[j]).fold(f32::MIN, f32::max)).collect();
    let rs: f32 = rmax.iter().sum();
    let cs: f32 = cmax.iter().sum();
    match which {
        0 => (rs / rows as f32 + cs / cols as f32) / 2.0,
        1 => (rs / rows as f32).max(cs / cols as f32),
        _ => (rs + cs) / (rows as f32 + cols as f32),
    }
}

pub fn check_c05(c: &Case) -> Check {
    let m = Model::new(c);
    let ont = build(c, false)?;
    let combs = [StandardCombiner::FunSimAvg, StandardCombiner::FunSimMax, StandardCombiner::Bma];
    for ma in 0..(1u32 << m.n) {
        for mb in 0..(1u32 << m.n) {
            let mut a: Vec<usize> = (0..m.n).filter(|k| ma >> k & 1 == 1).collect();
            let mut b: Vec<usize> = (0..m.n).filter(|k| mb >> k & 1 == 1).collect();
            // sets iterate in ascending id order
            a.sort_by_key(|&x| m.ids[x]);
            b.sort_by_key(|&x| m.ids[x]);
            let sa = HpoSet::new(&ont, group_of(&a.iter().map(|&x| m.ids[x]).collect()));
            let sb = HpoSet::new(&ont, group_of(&b.iter().map(|&x| m.ids[x]).collect()));
            for (wi, comb) in combs.iter().enumerate() {
                let mat: Vec<Vec<f32>> = a.iter().map(|&x| b.iter().map(|&y| Asym.calculate(&ont.hpo(m.ids[x]).unwrap(), &ont.hpo(m.ids[y]).unwrap())).collect()).collect();
                let exp = combine_expected(&mat, wi);
                let got = sa.similarity(&sb, Asym, *comb);
                if !close(got, exp) {
                    return Err(format!("{comb:?} of sets {:?} x {:?} with an asymmetric similarity = {got}, documented combination gives {exp}", a.iter().map(|&x| m.ids[x]).collect::<Vec<_>>(), b.iter().map(|&x| m.ids[x]).collect::<Vec<_>>()));
                }
                let matn: Vec<Vec<f32>> = a.iter().map(|&x| b.iter().map(|&y| Neg.calculate(&ont.hpo(m.ids[x]).unwrap(), &ont.hpo(m.ids[y]).unwrap())).collect()).collect();
                let expn = combine_expected(&matn, wi);
                let gotn = sa.similarity(&sb, Neg, *comb);
                if !close(gotn, expn) {
                    return Err(format!("{comb:?} of sets {:?} x {:?} with a never-positive similarity = {gotn}, documented combination gives {expn}", a.iter().map(|&x| m.ids[x]).collect::<Vec<_>>(), b.iter().map(|&x| m.ids[x]).collect::<Vec<_>>()));
                }
                let cached = sa.similarity(&sb, CachedSimilarity::new(Asym), *comb);
                if !close(got, cached) {
                    return Err(format!("{comb:?}: the caching adaptor changes the result ({got} vs {cached})"));
                }
                let s1 = sa.similarity(&sb, Sym, *comb);
                let s2 = sb.similarity(&sa, Sym, *comb);
                if !close(s1, s2) {
                    return Err(format!("{comb:?} with a symmetric similarity depends on the argument order ({s1} vs {s2})"));
                }
            }
        }
    }
    Ok(())
}

fn ln_choose(n: u64, k: u64) -> f64 {
    if k > n {
        return f64::NEG_INFINITY;
    }
    let mut s = 0.0f64;
    for i in 0..k {
        s += ((n - i) as f64).ln() - ((i + 1) as f64).ln();
    }
    s
}
/// P[X >= k], X ~ Hypergeometric(N, K, n)
fn hyper_tail(nn: u64, kk: u64, n: u64, k: u64) -> f64 {
    let mut p = 0.0;
    let hi = kk.min(n);
    let mut i = k;
    while i <= hi {
        p += (ln_choose(kk, i) + ln_choose(nn - kk, n - i) - ln_choose(nn, n)).exp();
        i += 1;
    }
    p
}

pub fn check_c06(c: &Case) -> Check {
    use hpo::stats::hypergeom::{gene_enrichment, omim_disease_enrichment, orpha_disease_enrichment};
    let m0 = Model::new(c);
    let ont = build(c, false)?;
    let m = m0.observed(&ont);
    let nn = m.n as u64;
    for mask in 1..(1u32 << m.n) {
        let sample: Vec<usize> = (0..m.n).filter(|k| mask >> k & 1 == 1).collect();
        let set = HpoSet::new(&ont, group_of(&sample.iter().map(|&x| m.ids[x]).collect()));
        for kind in 0..3 {
            let got: BTreeMap<u32, (u64, f64, f64)> = match kind {
                0 => gene_enrichment(&ont, &set).iter().map(|e| (e.id().as_u32(), (e.count(), e.pvalue(), e.enrichment()))).collect(),
                1 => omim_disease_enrichment(&ont, &set).iter().map(|e| (e.id().as_u32(), (e.count(), e.pvalue(), e.enrichment()))).collect(),
                _ => orpha_disease_enrichment(&ont, &set).iter().map(|e| (e.id().as_u32(), (e.count(), e.pvalue(), e.enrichment()))).collect(),
            };
            let mut exp: BTreeMap<u32, (u64, f64, f64)> = BTreeMap::new();
            for (&r, _) in &m.recs[kind] {
                let k = sample.iter().filter(|&&x| m.linked(kind, x).contains(&r)).count() as u64;
                let kk = (0..m.n).filter(|&x| m.linked(kind, x).contains(&r)).count() as u64;
                if k > 0 {
                    let n = sample.len() as u64;
                    exp.insert(r, (k, hyper_tail(nn, kk, n, k), (k as f64 / n as f64) / (kk as f64 / nn as f64)));
                }
            }
            if got.keys().collect::<Vec<_>>() != exp.keys().collect::<Vec<_>>() {
                return Err(format!("kind {kind} sample {:?}: records for {:?}, specified {:?}", sample, got.keys(), exp.keys()));
            }
            for (r, (k, p, f)) in &exp {
                let (gk, gp, gf) = got[r];
                if gk != *k || (gp - p).abs() > 1e-9 || (gf - f).abs() > 1e-9 || !(0.0..=1.0 + 1e-12).contains(&gp) {
                    return Err(format!("kind {kind} record {r} sample {:?}: (count, p, fold) = ({gk}, {gp}, {gf}), specified ({k}, {p}, {f})", sample.iter().map(|&x| m.ids[x]).collect::<Vec<_>>()));
                }
            }
        }
    }
    Ok(())
}

// ---- independent encoder of the documented binary layouts (v1, v2, v3)
fn be(x: u32) -> [u8; 4] {
    x.to_be_bytes()
}
fn section(records: Vec<Vec<u8>>) -> Vec<u8> {
    let body: Vec<u8> = records.concat();
    let mut v = be(body.len() as u32).to_vec();
    v.extend(body);
    v
}
pub struct Enc {
    pub version: u8,
    pub reverse: bool,
    /// per node: (obsolete, replacement id or 0)
    pub flags: Vec<(bool, u32)>,
    pub rename_term: Option<usize>,
    pub rename_rec: Option<(usize, u32)>,
}
impl Clone for Enc {
    fn clone(&self) -> Enc {
        Enc { version: self.version, reverse: self.reverse, flags: self.flags.clone(), rename_term: self.rename_term, rename_rec: self.rename_rec }
    }
}
/// node whose name is empty in the encoded file (rename_term == Some(EMPTY_NAME + node))
pub const EMPTY_NAME: usize = 1000;
fn enc_term_name(e: &Enc, t: usize) -> String {
    if e.rename_term == Some(EMPTY_NAME + t) { String::new() } else if e.rename_term == Some(t) { format!("renamed {t}") } else { name_of(t) }
}
pub fn encode(c: &Case, e: &Enc) -> Vec<u8> {
    let m = Model::new(c);
    let mut out = vec![];
    if e.version >= 2 {
        out.extend([0x48, 0x50, 0x4f, e.version]);
        out.extend(2024u16.to_be_bytes());
        out.extend([3u8, 7u8]);
    }
    let mut order: Vec<usize> = (0..m.n).collect();
    if e.reverse {
        order.reverse();
    }
    let terms: Vec<Vec<u8>> = order
        .iter()
        .map(|&t| {
            let name = name255(&enc_term_name(e, t));
            let nb = name.as_bytes();
            let mut r = vec![];
            if e.version == 1 {
                r.extend(be(9 + nb.len() as u32));
                r.extend(be(m.ids[t]));
                r.push(nb.len() as u8);
                r.extend(nb);
            } else {
                r.extend(be(14 + nb.len() as u32));
                r.extend(be(m.ids[t]));
                r.push(nb.len() as u8);
                r.extend(nb);
                r.push(u8::from(e.flags[t].0));
                r.extend(be(e.flags[t].1));
            }
            r
        })
        .collect();
    out.extend(section(terms));
    let parents: Vec<Vec<u8>> = order
        .iter()
        .map(|&t| {
            let mut r = be(m.parents[t].len() as u32).to_vec();
            r.extend(be(m.ids[t]));
            let mut ps: Vec<usize> = m.parents[t].iter().copied().collect();
            if e.reverse {
                ps.reverse();
            }
            for p in ps {
                r.extend(be(m.ids[p]));
            }
            r
        })
        .collect();
    out.extend(section(parents));
    for kind in 0..3 {
        if kind == 2 && e.version < 3 {
            break;
        }
        let mut recs: Vec<Vec<u8>> = m.recs[kind]
            .iter()
            .map(|(r, ds)| {
                let mut name = rec_name(kind, *r);
                if e.rename_rec == Some((kind, *r)) {
                    name += "x";
                }
                if kind == 0 {
                    // gene symbols are limited to 255 bytes in the file (one length byte)
                    name = name255(&name);
                }
                let nb = name.as_bytes();
                let mut v = vec![];
                if kind == 0 {
                    v.extend(be(13 + nb.len() as u32 + 4 * ds.len() as u32));
                    v.extend(be(*r));
                    v.push(nb.len() as u8);
                } else {
                    v.extend(be(16 + nb.len() as u32 + 4 * ds.len() as u32));
                    v.extend(be(*r));
                    v.extend(be(nb.len() as u32));
                }
                v.extend(nb);
                v.extend(be(ds.len() as u32));
                let mut dv: Vec<usize> = ds.iter().copied().collect();
                if e.reverse {
                    dv.reverse();
                }
                for d in dv {
                    v.extend(be(m.ids[d]));
                }
                v
            })
            .collect();
        if e.reverse {
            recs.reverse();
        }
        out.extend(section(recs));
    }
    out
}

fn load(bytes: &[u8]) -> Result<Result<Ontology, String>, ()> {
    panic::catch_unwind(|| Ontology::from_bytes(bytes).map_err(|e| format!("{e}"))).map_err(|_| ())
}

pub fn check_c08(c: &Case) -> Check {
    if c.n < 2 || c.edges & 1 == 0 {
        return Ok(());
    }
    let m = Model::new(c);
    for version in [1u8, 2, 3] {
        let mut cv = c.clone();
        if version < 3 {
            cv.facts.retain(|f| f.0 != 2);
        }
        for reverse in [false, true] {
            let flags: Vec<(bool, u32)> = (0..m.n).map(|t| (t == 2 && version > 1, if t == 3 && version > 1 { m.ids[0] } else { 0 })).collect();
            let enc = Enc { version, reverse, flags: flags.clone(), rename_term: None, rename_rec: None };
            let bytes = encode(&cv, &enc);
            let ont = match load(&bytes) {
                Err(()) => return Err(format!("from_bytes panicked on a valid v{version} file (record order reversed: {reverse})")),
                Ok(Err(e)) => return Err(format!("from_bytes rejected a valid v{version} file (record order reversed: {reverse}): {e}")),
                Ok(Ok(o)) => o,
            };
            // obsolete flags / replacements / version are not expressible through the Builder: compare them separately
            for t in 0..m.n {
                let h = ont.hpo(m.ids[t]).ok_or("term missing after decoding")?;
                expect(&format!("v{version} obsolete flag of {}", m.ids[t]), h.is_obsolete(), flags[t].0)?;
                expect(&format!("v{version} replacement of {}", m.ids[t]), h.replacement_id().map(|x| x.as_u32()), if flags[t].1 != 0 { Some(flags[t].1) } else { None })?;
            }
            expect(&format!("v{version} release version"), ont.hpo_version(), if version == 1 { "0000-00-00".to_string() } else { "2024-03-07".to_string() })?;
            // the decoder's own layer: the facts the file states (terms with name / flags / replacement, direct parents,
            // records with name and direct terms), read back through the API. Closure, inheritance and information
            // content of the decoded ontology are derived by the builder functions and are C01/C02/C03's to judge.
            let expected = variant_facts(&Variant { case: cv.clone(), enc: Some(enc.clone()) });
            let got = api_facts(&ont);
            expect(&format!("v{version} (record order reversed: {reverse}): number of terms"), ont.len(), m.n)?;
            if got.terms != expected.terms {
                return Err(format!("a v{version} file (record order reversed: {reverse}) decodes to different terms than it describes:\n decoded:  {:?}\n described: {:?}", got.terms, expected.terms));
            }
            for kind in 0..3 {
                if got.recs[kind] != expected.recs[kind] {
                    return Err(format!("a v{version} file (record order reversed: {reverse}) decodes to different records of kind {kind} than it describes:\n decoded:  {:?}\n described: {:?}", got.recs[kind], expected.recs[kind]));
                }
            }
            // the damage sweeps cost one decode per byte of the file: done on every case up to 3 terms, and on a fixed
            // subset of the larger ones (more of them in the thorough tier)
            let th = THOROUGH.load(std::sync::atomic::Ordering::Relaxed);
            let sweep = c.n < 4
                || (c.n == 4 && (if th { c.facts.len() != 4 || c.edges % 4 == 3 } else { c.edges % 8 == 7 && c.facts.len() % 2 == 1 }))
                || (c.n == 5 && th && c.edges % 32 == 31 && c.facts.len() != 4);
            // the shortest possible term record: an unnamed term as the LAST record of the terms section
            {
                let last = if reverse { 0 } else { m.n - 1 };
                let e2 = Enc { version, reverse, flags: flags.clone(), rename_term: Some(EMPTY_NAME + last), rename_rec: None };
                match load(&encode(&cv, &e2)) {
                    Ok(Ok(o)) => {
                        expect(&format!("v{version}: number of terms of a file whose last term record is unnamed"), o.len(), m.n)?;
                        let h = o.hpo(m.ids[last]).ok_or(format!("v{version}: the unnamed last term {} is missing after decoding", m.ids[last]))?;
                        expect(&format!("v{version}: name of the unnamed term"), h.name().to_string(), String::new())?;
                        let p: BTreeSet<u32> = h.parents().map(|x| x.id().as_u32()).collect();
                        expect(&format!("v{version}: parents of the unnamed term"), p, m.idset(&m.parents[last]))?;
                    }
                    _ => return Err(format!("a valid v{version} file whose last term record is unnamed is rejected")),
                }
            }
            if c.order == 0 && !reverse && sweep {
                // every proper prefix and small extensions must be rejected (error or documented panic), never returned
                for cut in 0..bytes.len() {
                    if let Ok(Ok(_)) = load(&bytes[..cut]) {
                        return Err(format!("a v{version} file truncated to {cut} of {} bytes was accepted", bytes.len()));
                    }
                }
                for extra in [1usize, 2, 3, 4, 5, 8] {
                    let mut b2 = bytes.clone();
                    b2.extend(std::iter::repeat(0u8).take(extra));
                    if let Ok(Ok(_)) = load(&b2) {
                        return Err(format!("a v{version} file followed by {extra} extra bytes was accepted"));
                    }
                    let mut b3 = bytes.clone();
                    b3.extend(std::iter::repeat(0xffu8).take(extra));
                    if let Ok(Ok(_)) = load(&b3) {
                        return Err(format!("a v{version} file followed by {extra} extra 0xff bytes was accepted"));
                    }
                }
                if version >= 2 {
                    for vb in 0..=255u8 {
                        if vb == 2 || vb == 3 {
                            continue;
                        }
                        let mut b4 = bytes.clone();
                        b4[3] = vb;
                        if let Ok(Ok(_)) = load(&b4) {
                            return Err(format!("a file announcing the unsupported version byte {vb} was accepted"));
                        }
                    }
                } else {
                    // the same announcement in front of a body in the (headerless) v1 layout: there is no version 1 header
                    for vb in 0..=255u8 {
                        if vb == 2 || vb == 3 {
                            continue;
                        }
                        let mut b5 = vec![0x48u8, 0x50, 0x4f, vb];
                        b5.extend(&bytes);
                        if let Ok(Ok(_)) = load(&b5) {
                            return Err(format!("a file announcing the unsupported version byte {vb} in front of a v1-layout body was accepted"));
                        }
                    }
                }
            }
        }
    }
    Ok(())
}

/// what an ontology is specified to contain, as far as comparison is concerned
#[derive(Clone)]
struct Facts {
    /// id -> (name, direct parents, obsolete, replacement)
    terms: BTreeMap<u32, (String, BTreeSet<u32>, bool, Option<u32>)>,
    /// per kind: record id -> (name, direct terms)
    recs: [BTreeMap<u32, (String, BTreeSet<u32>)>; 3],
}
/// a variant of a case: structure through the Builder, or (when flags / names are edited) through the independent v3 encoder
#[derive(Clone)]
struct Variant {
    case: Case,
    enc: Option<Enc>,
}
fn variant_facts(v: &Variant) -> Facts {
    let m = Model::new(&v.case);
    let mut terms = BTreeMap::new();
    for t in 0..m.n {
        let (mut name, mut obs, mut rep) = (name_of(t), false, None);
        if let Some(e) = &v.enc {
            name = name255(&enc_term_name(e, t));
            obs = e.flags[t].0;
            rep = if e.flags[t].1 != 0 { Some(e.flags[t].1) } else { None };
        }
        terms.insert(m.ids[t], (name, m.idset(&m.parents[t]), obs, rep));
    }
    let mut recs: [BTreeMap<u32, (String, BTreeSet<u32>)>; 3] = Default::default();
    for kind in 0..3 {
        for (r, ds) in &m.recs[kind] {
            let mut name = rec_name(kind, *r);
            if let Some(e) = &v.enc {
                if e.rename_rec == Some((kind, *r)) {
                    name += "x";
                }
                if kind == 0 {
                    name = name255(&name);
                }
            }
            recs[kind].insert(*r, (name, m.idset(ds)));
        }
    }
    Facts { terms, recs }
}
fn variant_build(v: &Variant) -> Result<Ontology, String> {
    match &v.enc {
        None => build(&v.case, false),
        Some(e) => match load(&encode(&v.case, e)) {
            Ok(Ok(o)) => Ok(o),
            Ok(Err(e)) => Err(format!("variant does not load: {e}")),
            Err(()) => Err("variant load panicked".into()),
        },
    }
}
type Delta = (BTreeSet<u32>, BTreeSet<u32>);
fn ids_of(v: Option<&Vec<HpoTermId>>) -> BTreeSet<u32> {
    v.map(|v| v.iter().map(|x| x.as_u32()).collect()).unwrap_or_default()
}

/// what an ontology contains according to its own read API (names, direct parents, flags, records with direct terms)
fn api_facts(ont: &Ontology) -> Facts {
    let mut terms = BTreeMap::new();
    for t in ont.iter() {
        terms.insert(
            t.id().as_u32(),
            (t.name().to_string(), t.parent_ids().iter().map(|x| x.as_u32()).collect(), t.is_obsolete(), t.replacement_id().map(|x| x.as_u32())),
        );
    }
    let mut recs: [BTreeMap<u32, (String, BTreeSet<u32>)>; 3] = Default::default();
    for g in ont.genes() {
        recs[0].insert(g.id().as_u32(), (g.name().to_string(), grp(g.hpo_terms())));
    }
    for g in ont.omim_diseases() {
        recs[1].insert(g.id().as_u32(), (g.name().to_string(), grp(g.hpo_terms())));
    }
    for g in ont.orpha_diseases() {
        recs[2].insert(g.id().as_u32(), (g.name().to_string(), grp(g.hpo_terms())));
    }
    Facts { terms, recs }
}
fn compare_expect(old: &Ontology, new: &Ontology, _fo: &Facts, _fnw: &Facts) -> Check {
    // the comparison is judged against what the two ontologies contain according to their own read API: whether they
    // were built correctly from the facts is for C01/C02/C07/C08 to say
    let (fo_api, fnw_api) = (api_facts(old), api_facts(new));
    let (fo, fnw) = (&fo_api, &fnw_api);
    let cmp = old.compare(new);
    let ids_old: BTreeSet<u32> = fo.terms.keys().copied().collect();
    let ids_new: BTreeSet<u32> = fnw.terms.keys().copied().collect();
    let added: BTreeSet<u32> = cmp.added_hpo_terms().iter().map(|t| t.id().as_u32()).collect();
    let removed: BTreeSet<u32> = cmp.removed_hpo_terms().iter().map(|t| t.id().as_u32()).collect();
    expect("added terms", added, ids_new.difference(&ids_old).copied().collect())?;
    expect("removed terms", removed, ids_old.difference(&ids_new).copied().collect())?;
    // (added parents, removed parents, name change, obsolete change, replacement change)
    type TD = (BTreeSet<u32>, BTreeSet<u32>, Option<(String, String)>, Option<(bool, bool)>, Option<(Option<u32>, Option<u32>)>);
    let mut exp_changed: BTreeMap<u32, TD> = BTreeMap::new();
    for &id in ids_old.intersection(&ids_new) {
        let (o, n) = (&fo.terms[&id], &fnw.terms[&id]);
        // a replacement is reported as the term it resolves to: an id absent from the ontology counts as none
        let ro = o.3.filter(|r| ids_old.contains(r));
        let rn = n.3.filter(|r| ids_new.contains(r));
        if o.0 != n.0 || o.1 != n.1 || o.2 != n.2 || ro != rn {
            exp_changed.insert(
                id,
                (
                    n.1.difference(&o.1).copied().collect(),
                    o.1.difference(&n.1).copied().collect(),
                    if o.0 != n.0 { Some((o.0.clone(), n.0.clone())) } else { None },
                    if o.2 != n.2 { Some((o.2, n.2)) } else { None },
                    if ro != rn { Some((ro, rn)) } else { None },
                ),
            );
        }
    }
    let got_changed: BTreeMap<u32, TD> = cmp
        .changed_hpo_terms()
        .iter()
        .map(|d| {
            (
                d.id().as_u32(),
                (
                    ids_of(d.added_parents()),
                    ids_of(d.removed_parents()),
                    d.changed_name().cloned(),
                    d.changed_obsolete(),
                    d.changed_replacement().map(|(a, b)| (a.map(|x| x.as_u32()), b.map(|x| x.as_u32()))),
                ),
            )
        })
        .collect();
    expect("changed terms (added parents, removed parents, name, obsolete, replacement)", got_changed, exp_changed)?;
    for kind in 0..3 {
        let ro: BTreeSet<u32> = fo.recs[kind].keys().copied().collect();
        let rn: BTreeSet<u32> = fnw.recs[kind].keys().copied().collect();
        type AD = (Delta, Option<(String, String)>, (usize, usize));
        let conv = |d: &hpo::comparison::AnnotationDelta| -> (String, AD) {
            (d.id().to_string(), ((ids_of(d.added_terms()), ids_of(d.removed_terms())), d.changed_name().cloned(), d.n_terms()))
        };
        let (ga, gr, gc): (BTreeSet<u32>, BTreeSet<u32>, Vec<(String, AD)>) = match kind {
            0 => (
                cmp.added_genes().iter().map(|g| g.id().as_u32()).collect(),
                cmp.removed_genes().iter().map(|g| g.id().as_u32()).collect(),
                cmp.changed_genes().iter().map(conv).collect(),
            ),
            1 => (
                cmp.added_omim_diseases().iter().map(|g| g.id().as_u32()).collect(),
                cmp.removed_omim_diseases().iter().map(|g| g.id().as_u32()).collect(),
                cmp.changed_omim_diseases().iter().map(conv).collect(),
            ),
            _ => (
                cmp.added_orpha_diseases().iter().map(|g| g.id().as_u32()).collect(),
                cmp.removed_orpha_diseases().iter().map(|g| g.id().as_u32()).collect(),
                cmp.changed_orpha_diseases().iter().map(conv).collect(),
            ),
        };
        expect(&format!("added records kind {kind}"), ga, rn.difference(&ro).copied().collect())?;
        expect(&format!("removed records kind {kind}"), gr, ro.difference(&rn).copied().collect())?;
        let mut exp: Vec<AD> = vec![];
        for r in ro.intersection(&rn) {
            let (o, n) = (&fo.recs[kind][r], &fnw.recs[kind][r]);
            if o.0 != n.0 || o.1 != n.1 {
                exp.push((
                    (n.1.difference(&o.1).copied().collect(), o.1.difference(&n.1).copied().collect()),
                    if o.0 != n.0 { Some((o.0.clone(), n.0.clone())) } else { None },
                    (o.1.len(), n.1.len()),
                ));
            }
        }
        let mut got: Vec<AD> = gc.into_iter().map(|x| x.1).collect();
        got.sort();
        exp.sort();
        expect(&format!("changed records kind {kind} ((added, removed terms), name change, term counts)"), got, exp)?;
    }
    Ok(())
}

pub fn check_c18(c: &Case) -> Check {
    // comparison does not depend on the supply order; the second id map is only used on the smaller graphs in the quick tier
    if c.order != 0 || (c.idmap != 0 && c.n > 3 && !THOROUGH.load(std::sync::atomic::Ordering::Relaxed)) {
        return Ok(());
    }
    let base = Variant { case: c.clone(), enc: None };
    let o = variant_build(&base)?;
    let fb = variant_facts(&base);
    // identity
    compare_expect(&o, &o, &fb, &fb)?;
    // an ontology compared with its binary round trip reports nothing (needs the standard roots; names beyond the
    // documented 255-byte limit are cut by the format, and compare then rightly reports a rename: skipped)
    if c.idmap == 0 && c.n >= 2 && c.edges & 1 == 1 {
        let any_long = o.iter().any(|t| t.name().len() > 255) || o.genes().any(|g| g.name().len() > 255);
        if !any_long {
            // a file that does not load is C07's / C08's to report
            if let Ok(Ok(o2)) = load(&o.as_bytes()) {
                for (x, y, dir) in [(&o, &o2, "original vs round trip"), (&o2, &o, "round trip vs original")] {
                    let cmp = x.compare(y);
                    let n = cmp.added_hpo_terms().len() + cmp.removed_hpo_terms().len() + cmp.changed_hpo_terms().len()
                        + cmp.added_genes().len() + cmp.removed_genes().len() + cmp.changed_genes().len()
                        + cmp.added_omim_diseases().len() + cmp.removed_omim_diseases().len() + cmp.changed_omim_diseases().len()
                        + cmp.added_orpha_diseases().len() + cmp.removed_orpha_diseases().len() + cmp.changed_orpha_diseases().len();
                    if n != 0 {
                        let names: Vec<String> = cmp.changed_hpo_terms().iter().filter_map(|d| d.changed_name().map(|(a, b)| format!("{a:?} -> {b:?}"))).collect();
                        return Err(format!("compare({dir}) reports {n} differences after a binary round trip (renamed terms: {names:?})"));
                    }
                }
            }
        }
    }
    let mut variants: Vec<Variant> = vec![];
    if c.n > 1 {
        let mut v = c.clone();
        v.n = c.n - 1;
        let mut e2 = 0u32;
        for (k2, (i, j)) in pairs(c.n - 1).into_iter().enumerate() {
            let k = pairs(c.n).iter().position(|&p| p == (i, j)).unwrap();
            if c.edges >> k & 1 == 1 {
                e2 |= 1 << k2;
            }
        }
        v.edges = e2;
        v.facts.retain(|f| (f.2 as usize) < c.n - 1 || f.2 == NO_TERM);
        variants.push(Variant { case: v, enc: None });
    }
    let np = pairs(c.n).len();
    for k in 0..np {
        let mut v = c.clone();
        v.edges ^= 1 << k;
        variants.push(Variant { case: v, enc: None });
        // two links changed at once (e.g. a term moved from one parent to another)
        for k2 in (k + 1)..np {
            let mut v = c.clone();
            v.edges ^= (1 << k) | (1 << k2);
            variants.push(Variant { case: v, enc: None });
        }
    }
    for d in 0..c.n as u8 {
        for (kind, r) in [(0u8, 1u32), (1, 77), (2, 2)] {
            let mut v = c.clone();
            v.facts.push((kind, r, d));
            variants.push(Variant { case: v, enc: None });
        }
    }
    // drop one annotation fact; exchange the term of one fact
    for i in 0..c.facts.len() {
        let mut v = c.clone();
        v.facts.remove(i);
        variants.push(Variant { case: v, enc: None });
        let mut v = c.clone();
        v.facts[i].2 = if v.facts[i].2 == NO_TERM { 0 } else { (v.facts[i].2 + 1) % c.n as u8 };
        variants.push(Variant { case: v, enc: None });
    }
    // edits the Builder cannot express: through the independent v3 encoder (both sides, so that only the edit differs)
    let plain = Enc { version: 3, reverse: false, flags: vec![(false, 0); c.n], rename_term: None, rename_rec: None };
    let ids_v = ids(c.idmap, c.n);
    let encodable = c.idmap == 0 && c.n >= 2 && c.edges & 1 == 1;
    if !encodable {
        return c18_builder_variants(&o, &fb, &variants);
    }
    let enc_base = Variant { case: c.clone(), enc: Some(plain.clone()) };
    // (a variant file that does not load is C08's to report; the comparison is judged on what loads)
    let Ok(oe) = variant_build(&enc_base) else { return c18_builder_variants(&o, &fb, &variants) };
    let fe = variant_facts(&enc_base);
    compare_expect(&o, &oe, &fb, &fe)?;
    let mut enc_variants: Vec<Variant> = vec![];
    for t in 0..c.n {
        let mut e = plain.clone();
        e.rename_term = Some(t);
        enc_variants.push(Variant { case: c.clone(), enc: Some(e) });
        let mut e = plain.clone();
        e.flags[t].0 = true;
        enc_variants.push(Variant { case: c.clone(), enc: Some(e) });
        let mut e = plain.clone();
        e.flags[t].1 = ids_v[(t + 1) % c.n];
        enc_variants.push(Variant { case: c.clone(), enc: Some(e.clone()) });
        if c.n > 2 {
            // replacement changed from one term to another
            let mut e2 = plain.clone();
            e2.flags[t].1 = ids_v[(t + 2) % c.n];
            let (va, vb) = (Variant { case: c.clone(), enc: Some(e) }, Variant { case: c.clone(), enc: Some(e2) });
            if let (Ok(oa), Ok(ob)) = (variant_build(&va), variant_build(&vb)) {
                compare_expect(&oa, &ob, &variant_facts(&va), &variant_facts(&vb))?;
            }
        }
    }
    let m = Model::new(c);
    for kind in 0..3 {
        if let Some(r) = m.recs[kind].keys().next() {
            let mut e = plain.clone();
            e.rename_rec = Some((kind, *r));
            enc_variants.push(Variant { case: c.clone(), enc: Some(e) });
        }
    }
    for v in &enc_variants {
        let Ok(o2) = variant_build(v) else { continue };
        let f2 = variant_facts(v);
        compare_expect(&oe, &o2, &fe, &f2).map_err(|e| format!("old = case, new = encoded variant {:?}/{:?}/{:?}: {e}", v.enc.as_ref().unwrap().flags, v.enc.as_ref().unwrap().rename_term, v.enc.as_ref().unwrap().rename_rec))?;
        compare_expect(&o2, &oe, &f2, &fe).map_err(|e| format!("old = encoded variant, new = case: {e}"))?;
    }
    c18_builder_variants(&o, &fb, &variants)
}
fn c18_builder_variants(o: &Ontology, fb: &Facts, variants: &[Variant]) -> Check {
    for v in variants {
        let o2 = variant_build(v)?;
        let f2 = variant_facts(v);
        compare_expect(o, &o2, fb, &f2).map_err(|e| format!("old = case, new = variant {}: {e}", v.case.id()))?;
        compare_expect(&o2, o, &f2, fb).map_err(|e| format!("old = variant {}, new = case: {e}", v.case.id()))?;
    }
    Ok(())
}

/// C06 on populations around and above the 170-entry factorial table (bounded: the listed sizes only).
/// Star ontology: root 1 with children 2..=N; gene K is annotated to the children 2..=K+1 (and inherited by the root).
pub fn check_c06_large(thorough: bool) -> Result<usize, String> {
    use hpo::stats::hypergeom::{gene_enrichment, omim_disease_enrichment, orpha_disease_enrichment};
    let sizes: &[u32] = if thorough { &[150, 168, 169, 170, 171, 172, 173, 175, 180, 200, 260, 341, 372, 500, 1000] } else { &[169, 170, 171, 172, 175, 200, 372] };
    let mut count = 0;
    for &nn in sizes {
        let mut b = Builder::new();
        for id in 1..=nn {
            b.new_term(&format!("t{id}"), id);
        }
        let mut b = b.terms_complete();
        for id in 2..=nn {
            b.add_parent(1u32, id).map_err(|e| format!("{e}"))?;
        }
        let mut b = b.connect_all_terms();
        let ks: Vec<u32> = [1u32, 2, 5, 17, nn / 3, nn / 2, nn - 172.min(nn - 2), nn - 5, nn - 2].into_iter().filter(|&k| k >= 1 && k <= nn - 1).collect::<BTreeSet<u32>>().into_iter().collect();
        for &k in &ks {
            for id in 2..=(k + 1) {
                let t: HpoTermId = id.into();
                b.annotate_gene(GeneId::from(k), &format!("G{k}"), t).map_err(|e| format!("{e}"))?;
                b.annotate_omim_disease(OmimDiseaseId::from(k), &rec_name(1, k), t).map_err(|e| format!("{e}"))?;
                b.annotate_orpha_disease(OrphaDiseaseId::from(k), &rec_name(2, k), t).map_err(|e| format!("{e}"))?;
            }
        }
        let ont = b.calculate_information_content().map_err(|e| format!("{e}"))?.build_minimal();
        // samples: contiguous windows of children [lo, lo+n)
        let mut windows: Vec<(u32, u32)> = vec![(2, 1), (2, 5), (2, 38), (4, 3), (nn / 3, 20), (nn / 2, 7), (2, nn - 1), (2, nn - 3), (nn - 10, 10), (12, 171.min(nn - 12))];
        // depleted annotations: a large sample that contains only j = 1..3 of the K = N/2 linked terms (k far below the mode)
        for j in 1..=3u32 {
            windows.push((nn / 2 + 2 - j, nn / 2 - 2));
        }
        for (lo, n) in windows {
            if lo < 2 || lo + n > nn + 1 || n == 0 {
                continue;
            }
            let ids: BTreeSet<u32> = (lo..lo + n).collect();
            let set = HpoSet::new(&ont, group_of(&ids));
            for kind in 0..3 {
                let got: BTreeMap<u32, (u64, f64, f64)> = match kind {
                    0 => gene_enrichment(&ont, &set).iter().map(|e| (e.id().as_u32(), (e.count(), e.pvalue(), e.enrichment()))).collect(),
                    1 => omim_disease_enrichment(&ont, &set).iter().map(|e| (e.id().as_u32(), (e.count(), e.pvalue(), e.enrichment()))).collect(),
                    _ => orpha_disease_enrichment(&ont, &set).iter().map(|e| (e.id().as_u32(), (e.count(), e.pvalue(), e.enrichment()))).collect(),
                };
                let mut n_exp = 0;
                for &kr in &ks {
                    // linked sample terms: window ∩ [2, kr+1]
                    let k = (lo..lo + n).filter(|&t| t <= kr + 1).count() as u64;
                    if k == 0 {
                        if got.contains_key(&kr) {
                            return Err(format!("N={nn}: record {kr} reported although no sample term is linked"));
                        }
                        continue;
                    }
                    n_exp += 1;
                    let kk = kr as u64 + 1; // children + root
                    let p = hyper_tail(nn as u64, kk, n as u64, k);
                    let f = (k as f64 / n as f64) / (kk as f64 / nn as f64);
                    let Some(&(gk, gp, gf)) = got.get(&kr) else {
                        return Err(format!("N={nn} kind {kind}: no record for {kr}"));
                    };
                    let okp = (gp - p).abs() <= 1e-7 * p.abs() + 1e-13;
                    if gk != k || !okp || (gf - f).abs() > 1e-9 * f || !(0.0..=1.0 + 1e-9).contains(&gp) {
                        return Err(format!("population N={nn}, K={kk}, sample n={n}, k={k} (kind {kind}, record {kr}, sample terms {lo}..{}): (count, p, fold) = ({gk}, {gp:e}, {gf}), specified ({k}, {p:e}, {f})", lo + n));
                    }
                    count += 1;
                }
                if got.len() != n_exp {
                    return Err(format!("N={nn} kind {kind}: {} records, specified {n_exp}", got.len()));
                }
            }
        }
    }
    Ok(count)
}

// ================================================================================================ C17 hierarchical clustering
/// tie-free symmetric pseudo-random distance between two sets, keyed by their contents (bit masks of term ids)
fn c17_dist(a: u64, b: u64, seed: u64) -> f32 {
    let (lo, hi) = if a <= b { (a, b) } else { (b, a) };
    let mut x = lo.wrapping_mul(0x9E37_79B9_7F4A_7C15) ^ hi.wrapping_mul(0xC2B2_AE3D_27D4_EB4F) ^ seed.wrapping_mul(0x1656_67B1_9E37_79F9);
    x ^= x >> 29;
    x = x.wrapping_mul(0xBF58_476D_1CE4_E5B9);
    x ^= x >> 32;
    // 20 bits: exactly representable in f32, as are the means of two of them
    ((x & 0xF_FFFF) as f32) / 8.0 + 1.0
}
fn set_mask(s: &HpoSet) -> u64 {
    s.iter().fold(0u64, |m, t| m | (1u64 << t.id().as_u32()))
}

/// (lhs, rhs, distance, size) per merge, by the textbook agglomerative algorithm; None if a tie occurs
fn c17_reference(masks: &[u64], seed: u64, method: usize) -> Option<Vec<(usize, usize, f32, usize)>> {
    let n = masks.len();
    let mut content: Vec<u64> = masks.to_vec();
    let mut size: Vec<usize> = vec![1; n];
    let mut live: Vec<usize> = (0..n).collect();
    let mut d: BTreeMap<(usize, usize), f32> = BTreeMap::new();
    for i in 0..n {
        for j in (i + 1)..n {
            d.insert((i, j), c17_dist(masks[i], masks[j], seed));
        }
    }
    let key = |a: usize, b: usize| if a < b { (a, b) } else { (b, a) };
    let mut merges = vec![];
    while live.len() > 1 {
        let mut best: Option<((usize, usize), f32)> = None;
        let mut tie = false;
        for (x, &i) in live.iter().enumerate() {
            for &j in &live[x + 1..] {
                let v = d[&key(i, j)];
                match best {
                    None => best = Some((key(i, j), v)),
                    Some((_, bv)) if v < bv => {
                        best = Some((key(i, j), v));
                        tie = false;
                    }
                    Some((_, bv)) if v == bv => tie = true,
                    _ => {}
                }
            }
        }
        if tie {
            return None;
        }
        let ((i, j), v) = best?;
        let new = content.len();
        content.push(content[i] | content[j]);
        size.push(size[i] + size[j]);
        merges.push((i, j, v, size[new]));
        live.retain(|&x| x != i && x != j);
        for &x in &live {
            let nv = match method {
                0 => c17_dist(content[x], content[new], seed), // union: the user distance on the merged set
                1 => d[&key(x, i)].min(d[&key(x, j)]),
                2 => d[&key(x, i)].max(d[&key(x, j)]),
                _ => (d[&key(x, i)] + d[&key(x, j)]) / 2.0,
            };
            d.insert(key(x, new), nv);
        }
        live.push(new);
    }
    Some(merges)
}

pub fn check_c17_all(thorough: bool) -> Result<usize, String> {
    use hpo::stats::Linkage;
    use hpo::utils::Combinations;
    use std::cell::RefCell;
    // ontology: root 1; 2..=7 under 1; 8..=12 under 2
    let mut b = Builder::new();
    for id in 1..=12u32 {
        b.new_term(&format!("t{id}"), id);
    }
    let mut b = b.terms_complete();
    for id in 2..=7u32 {
        b.add_parent(1u32, id).map_err(|e| format!("{e}"))?;
    }
    for id in 8..=12u32 {
        b.add_parent(2u32, id).map_err(|e| format!("{e}"))?;
    }
    let ont = b.connect_all_terms().calculate_information_content().map_err(|e| format!("{e}"))?.build_minimal();
    // inputs with distinct contents; some overlap, some are ancestors of members of others
    let pool: Vec<BTreeSet<u32>> = vec![
        [3].into(), [8].into(), [2, 9].into(), [4, 5].into(), [1].into(), [8, 10, 11].into(), [6].into(), [2].into(),
        // an input without any term is an input like any other
        BTreeSet::new(),
    ];
    let maxn = if thorough { 8 } else { 7 };
    let seeds = if thorough { 3000 } else { 200 };
    let mut count = 0;
    for n in 2..=maxn {
        for seed in 0..seeds as u64 {
            // rotate the pool so that different inputs take part
            let chosen: Vec<&BTreeSet<u32>> = (0..n).map(|k| &pool[(k + seed as usize) % pool.len()]).collect();
            let masks: Vec<u64> = chosen.iter().map(|s| s.iter().fold(0u64, |m, t| m | (1u64 << t))).collect();
            for method in 0..4 {
                let Some(exp) = c17_reference(&masks, seed, method) else { continue };
                let calls: RefCell<Vec<Vec<(u64, u64)>>> = RefCell::new(vec![]);
                let distance = |combs: Combinations<HpoSet<'_>>| -> Vec<f32> {
                    let mut seen = vec![];
                    let v: Vec<f32> = combs
                        .map(|(x, y)| {
                            let (mx, my) = (set_mask(x), set_mask(y));
                            seen.push((mx, my));
                            c17_dist(mx, my, seed)
                        })
                        .collect();
                    calls.borrow_mut().push(seen);
                    v
                };
                let sets = chosen.iter().map(|s| HpoSet::new(&ont, group_of(s)));
                let name = ["union", "single", "complete", "average"][method];
                let what = format!("{name} linkage of the sets {chosen:?} with distance seed {seed}");
                let res = panic::catch_unwind(panic::AssertUnwindSafe(|| {
                    let l = match method {
                        0 => Linkage::union(sets, distance),
                        1 => Linkage::single(sets, distance),
                        2 => Linkage::complete(sets, distance),
                        _ => Linkage::average(sets, distance),
                    };
                    let merges: Vec<(usize, usize, f32, usize)> = l.cluster().map(|c| (c.lhs(), c.rhs(), c.distance(), c.len())).collect();
                    (merges, l.indicies())
                }));
                let Ok((got, order)) = res else { return Err(format!("{what}: panicked")) };
                // initial call: every unordered pair of inputs exactly once
                {
                    let calls = calls.borrow();
                    let first = calls.first().ok_or(format!("{what}: the distance callback was never called"))?;
                    let mut got_pairs: Vec<(u64, u64)> = first.iter().map(|&(a, b)| if a <= b { (a, b) } else { (b, a) }).collect();
                    got_pairs.sort_unstable();
                    let mut exp_pairs = vec![];
                    for i in 0..n {
                        for j in (i + 1)..n {
                            exp_pairs.push(if masks[i] <= masks[j] { (masks[i], masks[j]) } else { (masks[j], masks[i]) });
                        }
                    }
                    exp_pairs.sort_unstable();
                    if got_pairs != exp_pairs {
                        return Err(format!("{what}: the initial distance callback saw the pairs {got_pairs:?}, specified each unordered pair once: {exp_pairs:?}"));
                    }
                    if method != 0 && calls.len() != 1 {
                        return Err(format!("{what}: the distance callback was called {} times, specified once", calls.len()));
                    }
                }
                if got.len() != n - 1 {
                    return Err(format!("{what}: {} merges, specified {}", got.len(), n - 1));
                }
                // binary tree: every input and every intermediate cluster merged exactly once
                let mut used = vec![0usize; 2 * n - 1];
                for (k, m) in got.iter().enumerate() {
                    for idx in [m.0, m.1] {
                        if idx >= n + k {
                            return Err(format!("{what}: merge {k} refers to node {idx} which does not exist yet"));
                        }
                        used[idx] += 1;
                    }
                }
                if used[..2 * n - 2].iter().any(|&u| u != 1) || used[2 * n - 2] != 0 {
                    return Err(format!("{what}: not a binary tree over the inputs (use counts per node {used:?})"));
                }
                if got[n - 2].3 != n {
                    return Err(format!("{what}: the last merge has size {}, specified {n}", got[n - 2].3));
                }
                let mut so = order.clone();
                so.sort_unstable();
                if so != (0..n).collect::<Vec<usize>>() {
                    return Err(format!("{what}: leaf order {order:?} is not a permutation of 0..{n}"));
                }
                let norm = |v: &[(usize, usize, f32, usize)]| -> Vec<(usize, usize, u32, usize)> { v.iter().map(|m| (m.0.min(m.1), m.0.max(m.1), m.2.to_bits(), m.3)).collect() };
                if norm(&got) != norm(&exp) {
                    return Err(format!("{what}: merges (lhs, rhs, distance, size) = {got:?}, specified {exp:?}"));
                }
                count += 1;
            }
        }
    }
    Ok(count)
}

// ================================================================================================ C20: the whole id space, and a text grid
fn c20_render(x: u32) -> String {
    // 'HP:' + decimal digits, zero padded to seven (independent of core::fmt)
    let mut digits = vec![];
    let mut v = x;
    loop {
        digits.push(b'0' + (v % 10) as u8);
        v /= 10;
        if v == 0 {
            break;
        }
    }
    while digits.len() < 7 {
        digits.push(b'0');
    }
    digits.reverse();
    format!("HP:{}", String::from_utf8(digits).unwrap())
}
fn c20_parse_oracle(s: &str) -> Option<u32> {
    let b = s.as_bytes();
    if b.len() < 4 || !s.is_char_boundary(3) {
        return None;
    }
    let rest = &b[3..];
    // what u32::from_str accepts: optional '+', then at least one ASCII digit, value <= u32::MAX
    let digits = if rest[0] == b'+' { &rest[1..] } else { rest };
    if digits.is_empty() || !digits.iter().all(|c| c.is_ascii_digit()) {
        return None;
    }
    let mut v: u64 = 0;
    for &c in digits {
        v = v * 10 + (c - b'0') as u64;
        if v > u32::MAX as u64 {
            return None;
        }
    }
    Some(v as u32)
}
/// `HpoTermId::from(String)`, `id == &str` and `id == str` on a text that denotes `id`
fn c20_string_paths_agree(id: HpoTermId, s: &str) -> bool {
    let owned = s.to_string();
    matches!(panic::catch_unwind(move || HpoTermId::from(owned) == id && id == s && <HpoTermId as PartialEq<str>>::eq(&id, s)), Ok(true))
}
fn c20_one_text(s: &str) -> Check {
    let got = panic::catch_unwind(|| HpoTermId::try_from(s).ok().map(|x| x.as_u32()));
    match got {
        Err(_) => Err(format!("HpoTermId::try_from({s:?}) panicked")),
        Ok(g) => {
            let e = c20_parse_oracle(s);
            if g != e {
                return Err(format!("HpoTermId::try_from({s:?}) = {g:?}, specified {e:?}"));
            }
            // on text that denotes an id, the other conversions from text return the same id
            if let Some(v) = e {
                if !c20_string_paths_agree(HpoTermId::from_u32(v), s) {
                    return Err(format!("From<String> / PartialEq<str> on {s:?} disagree with try_from (= {v})"));
                }
            }
            Ok(())
        }
    }
}
pub fn check_c20_all(thorough: bool) -> Result<(usize, usize), String> {
    // 1. every id of the id space (and the u32 borders): rendering, parse round trip, byte round trip
    let nthreads = 16u32;
    let mut handles = vec![];
    for t in 0..nthreads {
        handles.push(std::thread::spawn(move || -> Result<(), String> {
            let mut x = t;
            while x <= 10_000_000 {
                let id = HpoTermId::from_u32(x);
                let s = id.to_string();
                if s != c20_render(x) {
                    return Err(format!("id {x} renders as {s:?}, specified {:?}", c20_render(x)));
                }
                if HpoTermId::try_from(s.as_str()).ok().map(|i| i.as_u32()) != Some(x) {
                    return Err(format!("id {x}: parsing its rendering {s:?} does not return it"));
                }
                if HpoTermId::from(id.to_be_bytes()) != id || id.to_be_bytes() != x.to_be_bytes() {
                    return Err(format!("id {x}: byte round trip fails"));
                }
                // the other conversions from text (From<String>, == str) agree on the rendering
                if !c20_string_paths_agree(id, &s) {
                    return Err(format!("id {x}: From<String> / PartialEq<str> disagree with the rendering {s:?}"));
                }
                x += nthreads;
            }
            Ok(())
        }));
    }
    for h in handles {
        h.join().map_err(|_| "worker panicked".to_string())??;
    }
    let mut ids = 10_000_001usize;
    for x in [10_000_001u32, 99_999_999, 100_000_000, u32::MAX - 1, u32::MAX, 1 << 31, (1 << 31) - 1] {
        let id = HpoTermId::from_u32(x);
        let s = id.to_string();
        if s != c20_render(x) || HpoTermId::try_from(s.as_str()).ok().map(|i| i.as_u32()) != Some(x) {
            return Err(format!("id {x} renders as {s:?} (specified {:?}) or does not parse back", c20_render(x)));
        }
        if !c20_string_paths_agree(id, &s) {
            return Err(format!("id {x}: From<String> / PartialEq<str> disagree with the rendering {s:?}"));
        }
        ids += 1;
    }
    // 2. text grid: every string over a small alphabet up to length 6 (7 thorough), plus long digit strings at the u32 border
    let alphabet: Vec<&str> = vec!["0", "1", "9", "H", "P", ":", "+", "-", " ", "\u{e9}", "\u{20ac}", "\u{1f600}"];
    let maxlen = if thorough { 6 } else { 5 };
    let mut texts = 0usize;
    let mut stack: Vec<String> = vec![String::new()];
    while let Some(s) = stack.pop() {
        c20_one_text(&s)?;
        texts += 1;
        if s.chars().count() < maxlen {
            for a in &alphabet {
                stack.push(format!("{s}{a}"));
            }
        }
    }
    for prefix in ["HP:", "abc", "\u{e9}:", "HP\u{e9}", "\u{20ac}", "HP:+", "HP:-", "HP: "] {
        for tail in ["4294967295", "4294967296", "04294967295", "42949672950", "0000000000000000118", "9999999", "10000000", "1e3", "12 ", " 12", "1_000", "0x10", "١٢٣", ""] {
            c20_one_text(&format!("{prefix}{tail}"))?;
            texts += 1;
        }
    }
    Ok((ids, texts))
}
