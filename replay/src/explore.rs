//! Bounded explorer: a deterministic enumeration of small ontologies, fact sets and call orders, checked against an
//! independently written reference model. It is (a) the counterexample finder / replay harness for obligations that
//! the verifier rejects, and (b) the *bounded stand-in* for functions that cannot be brought within the verifier's
//! reach (DESIGN.md section 3.10). Everything here is labelled "bounded" in the evidence and never counted as proved.
//!
//! usage (through main.rs):  verif_replay explore <Cxx> <quick|thorough>      -> EXPLORE-OK ... | EXPLORE-VIOLATION <case>
//!                           verif_replay case <Cxx> <case-id>                -> REPRODUCED: ... | NOT-REPRODUCED: ...
use hpo::annotations::{AnnotationId, Disease, GeneId, OmimDiseaseId, OrphaDiseaseId};
use hpo::builder::Builder;
use hpo::term::{HpoGroup, InformationContentKind};
use hpo::{HpoSet, HpoTermId, Ontology};
use std::collections::{BTreeMap, BTreeSet};
use std::panic;

pub const MAXN: usize = 5;

#[derive(Clone, Debug, PartialEq, Eq)]
pub struct Case {
    pub n: usize,
    /// bit k of `edges` = k-th pair (i, j), i < j, in lexicographic order: node i is a direct parent of node j
    pub edges: u32,
    pub idmap: u8,
    pub order: u8,
    /// (kind 0 gene | 1 omim | 2 orpha, record id, node)
    pub facts: Vec<(u8, u32, u8)>,
}

impl Case {
    pub fn id(&self) -> String {
        let f: Vec<String> = self.facts.iter().map(|(k, r, d)| format!("{k}.{r}.{d}")).collect();
        format!("n{}-e{}-m{}-o{}-f{}", self.n, self.edges, self.idmap, self.order, f.join("_"))
    }
    pub fn parse(s: &str) -> Option<Case> {
        let mut n = 0;
        let mut edges = 0;
        let mut idmap = 0;
        let mut order = 0;
        let mut facts = vec![];
        for part in s.split('-') {
            let (h, t) = part.split_at(1);
            match h {
                "n" => n = t.parse().ok()?,
                "e" => edges = t.parse().ok()?,
                "m" => idmap = t.parse().ok()?,
                "o" => order = t.parse().ok()?,
                "f" => {
                    for f in t.split('_').filter(|x| !x.is_empty()) {
                        let v: Vec<&str> = f.split('.').collect();
                        facts.push((v[0].parse().ok()?, v[1].parse().ok()?, v[2].parse().ok()?));
                    }
                }
                _ => return None,
            }
        }
        Some(Case { n, edges, idmap, order, facts })
    }
}

pub fn pairs(n: usize) -> Vec<(usize, usize)> {
    let mut v = vec![];
    for i in 0..n {
        for j in (i + 1)..n {
            v.push((i, j));
        }
    }
    v
}

/// node -> term id. Map 0 has the two standard roots as nodes 0 and 1.
pub fn ids(idmap: u8, n: usize) -> Vec<u32> {
    let all: [u32; MAXN] = match idmap {
        0 => [1, 118, 200, 5, 400],
        1 => [50, 40, 30, 20, 10],
        2 => [30, 10, 9_999_999, 20, 40],
        _ => [7, 3, 11, 2, 5],
    };
    all[..n].to_vec()
}

pub struct Model {
    pub n: usize,
    pub ids: Vec<u32>,
    pub parents: Vec<BTreeSet<usize>>,
    pub children: Vec<BTreeSet<usize>>,
    pub anc: Vec<BTreeSet<usize>>,
    /// per kind: record id -> direct nodes
    pub recs: [BTreeMap<u32, BTreeSet<usize>>; 3],
}

impl Model {
    pub fn new(c: &Case) -> Model {
        let n = c.n;
        let mut parents = vec![BTreeSet::new(); n];
        let mut children = vec![BTreeSet::new(); n];
        for (k, (i, j)) in pairs(n).into_iter().enumerate() {
            if c.edges >> k & 1 == 1 {
                parents[j].insert(i);
                children[i].insert(j);
            }
        }
        // nodes are in topological order (every edge goes from a smaller to a larger index)
        let mut anc: Vec<BTreeSet<usize>> = vec![BTreeSet::new(); n];
        for j in 0..n {
            let mut s = BTreeSet::new();
            for &p in &parents[j] {
                s.insert(p);
                s.extend(anc[p].iter().copied());
            }
            anc[j] = s;
        }
        let mut recs: [BTreeMap<u32, BTreeSet<usize>>; 3] = Default::default();
        for &(k, r, d) in &c.facts {
            recs[k as usize].entry(r).or_default().insert(d as usize);
        }
        Model { n, ids: ids(c.idmap, n), parents, children, anc, recs }
    }
    /// records of kind k linked to node t after inheritance
    pub fn linked(&self, k: usize, t: usize) -> BTreeSet<u32> {
        self.recs[k]
            .iter()
            .filter(|(_, ds)| ds.iter().any(|&d| d == t || self.anc[d].contains(&t)))
            .map(|(r, _)| *r)
            .collect()
    }
    pub fn idset(&self, s: &BTreeSet<usize>) -> BTreeSet<u32> {
        s.iter().map(|&i| self.ids[i]).collect()
    }
}

fn node_order(n: usize, order: u8) -> Vec<usize> {
    let mut v: Vec<usize> = (0..n).collect();
    match order {
        1 => v.reverse(),
        2 => v.rotate_left(1.min(n)),
        3 => {
            v.reverse();
            v.rotate_left(1.min(n));
        }
        _ => {}
    }
    v
}

pub fn name_of(node: usize) -> String {
    match node {
        // over-long name whose byte 255 falls inside a two-byte character
        3 => "\u{e9}".repeat(150) + "x",
        // exactly 255 bytes
        4 => "y".repeat(255),
        _ => format!("term {node} \u{e9}"),
    }
}
/// the documented limit for term and gene names in the binary format: at most 255 bytes, cut at a character boundary
pub fn name255(s: &str) -> String {
    let mut k = s.len().min(255);
    while !s.is_char_boundary(k) {
        k -= 1;
    }
    s[..k].to_string()
}

/// builds the ontology of a case through the Builder API, in the supply order of the case
pub fn build(c: &Case, defaults: bool) -> Result<Ontology, String> {
    let m = Model::new(c);
    let mut b = Builder::new();
    for node in node_order(c.n, c.order) {
        b.new_term(&name_of(node), m.ids[node]);
    }
    let mut b = b.terms_complete();
    let mut es: Vec<(usize, usize)> = pairs(c.n).into_iter().enumerate().filter(|(k, _)| c.edges >> k & 1 == 1).map(|(_, p)| p).collect();
    if c.order & 1 == 1 {
        es.reverse();
    }
    for (i, j) in es {
        b.add_parent(m.ids[i], m.ids[j]).map_err(|e| format!("add_parent failed: {e}"))?;
    }
    let mut b = b.connect_all_terms();
    for &(k, r, d) in &c.facts {
        let t: HpoTermId = m.ids[d as usize].into();
        let res = match k {
            0 => b.annotate_gene(GeneId::from(r), &format!("G{r}"), t),
            1 => b.annotate_omim_disease(OmimDiseaseId::from(r), &format!("O{r}"), t),
            _ => b.annotate_orpha_disease(OrphaDiseaseId::from(r), &format!("R{r}"), t),
        };
        res.map_err(|e| format!("annotate failed: {e}"))?;
    }
    let b = b.calculate_information_content().map_err(|e| format!("ic failed: {e}"))?;
    if defaults {
        b.build_with_defaults().map_err(|e| format!("build_with_defaults failed: {e}"))
    } else {
        Ok(b.build_minimal())
    }
}

fn grp(g: &HpoGroup) -> BTreeSet<u32> {
    g.iter().map(|x| x.as_u32()).collect()
}

/// everything observable about an ontology, rendered canonically (sorted): used for "observationally identical"
pub fn walk(ont: &Ontology) -> String {
    walk_with(ont, false)
}
pub fn walk_with(ont: &Ontology, cut_names: bool) -> String {
    let mut idsv: Vec<u32> = ont.iter().map(|t| t.id().as_u32()).collect();
    idsv.sort_unstable();
    let mut out = format!("v{} n{} |", ont.hpo_version(), ont.len());
    for id in idsv {
        let t = ont.hpo(id).unwrap();
        let p: BTreeSet<u32> = t.parents().map(|x| x.id().as_u32()).collect();
        let c: BTreeSet<u32> = t.children().map(|x| x.id().as_u32()).collect();
        let a: BTreeSet<u32> = t.all_parents().map(|x| x.id().as_u32()).collect();
        let g: BTreeSet<u32> = t.genes().map(|x| x.id().as_u32()).collect();
        let o: BTreeSet<u32> = t.omim_diseases().map(|x| x.id().as_u32()).collect();
        let r: BTreeSet<u32> = t.orpha_diseases().map(|x| x.id().as_u32()).collect();
        let ic = t.information_content();
        let cats: Vec<u32> = t.categories().iter().map(|x| x.as_u32()).collect();
        out += &format!(
            "T{id} {:?} obs{} rep{:?} p{p:?} c{c:?} a{a:?} g{g:?} o{o:?} r{r:?} ic{:08x}.{:08x}.{:08x} mod{} cat{cats:?};",
            if cut_names { name255(t.name()) } else { t.name().to_string() },
            t.is_obsolete(),
            t.replacement_id().map(|x| x.as_u32()),
            ic.gene().to_bits(),
            ic.omim_disease().to_bits(),
            ic.orpha_disease().to_bits(),
            t.is_modifier()
        );
    }
    let mut gs: Vec<(u32, String, BTreeSet<u32>)> = ont.genes().map(|g| (g.id().as_u32(), if cut_names { name255(g.name()) } else { g.name().to_string() }, grp(g.hpo_terms()))).collect();
    gs.sort();
    let mut os: Vec<(u32, String, BTreeSet<u32>)> = ont.omim_diseases().map(|g| (g.id().as_u32(), g.name().to_string(), grp(g.hpo_terms()))).collect();
    os.sort();
    let mut rs: Vec<(u32, String, BTreeSet<u32>)> = ont.orpha_diseases().map(|g| (g.id().as_u32(), g.name().to_string(), grp(g.hpo_terms()))).collect();
    rs.sort();
    out += &format!("G{gs:?} O{os:?} R{rs:?} C{:?} M{:?}", grp(ont.categories()), grp(ont.modifier()));
    out
}

fn ic_expected(total: usize, current: usize) -> f32 {
    if total == 0 || current == 0 {
        return 0.0;
    }
    ((current as u16 as f32) / (total as u16 as f32)).ln() * -1.0
}

type Check = Result<(), String>;

fn expect<T: PartialEq + std::fmt::Debug>(what: &str, got: T, exp: T) -> Check {
    if got == exp {
        Ok(())
    } else {
        Err(format!("{what}: got {got:?}, specified {exp:?}"))
    }
}

// ------------------------------------------------------------------------------------------------ property oracles
pub fn check_c01(c: &Case) -> Check {
    let m = Model::new(c);
    let ont = build(c, false)?;
    for t in 0..m.n {
        let h = ont.hpo(m.ids[t]).ok_or("term missing")?;
        expect(&format!("ancestors of {}", m.ids[t]), grp(h.all_parent_ids()), m.idset(&m.anc[t]))?;
        expect(&format!("parents of {}", m.ids[t]), grp(h.parent_ids()), m.idset(&m.parents[t]))?;
        expect(&format!("children of {}", m.ids[t]), grp(h.children_ids()), m.idset(&m.children[t]))?;
        for u in 0..m.n {
            let hu = ont.hpo(m.ids[u]).unwrap();
            expect(&format!("{}.child_of({})", m.ids[t], m.ids[u]), h.child_of(&hu), m.anc[t].contains(&u))?;
            expect(&format!("{}.parent_of({})", m.ids[t], m.ids[u]), h.parent_of(&hu), m.anc[u].contains(&t))?;
        }
    }
    Ok(())
}

pub fn check_c02(c: &Case) -> Check {
    let m = Model::new(c);
    let ont = build(c, false)?;
    for t in 0..m.n {
        let h = ont.hpo(m.ids[t]).ok_or("term missing")?;
        let g: BTreeSet<u32> = h.gene_ids().iter().map(|x| x.as_u32()).collect();
        let o: BTreeSet<u32> = h.omim_disease_ids().iter().map(|x| x.as_u32()).collect();
        let r: BTreeSet<u32> = h.orpha_disease_ids().iter().map(|x| x.as_u32()).collect();
        expect(&format!("genes linked to {}", m.ids[t]), g, m.linked(0, t))?;
        expect(&format!("omim diseases linked to {}", m.ids[t]), o, m.linked(1, t))?;
        expect(&format!("orpha diseases linked to {}", m.ids[t]), r, m.linked(2, t))?;
        // resolving iterators resolve every id
        expect("genes() resolves", h.genes().count(), m.linked(0, t).len())?;
        expect("omim_diseases() resolves", h.omim_diseases().count(), m.linked(1, t).len())?;
        expect("orpha_diseases() resolves", h.orpha_diseases().count(), m.linked(2, t).len())?;
    }
    expect("number of genes", ont.genes().count(), m.recs[0].len())?;
    expect("number of omim diseases", ont.omim_diseases().count(), m.recs[1].len())?;
    expect("number of orpha diseases", ont.orpha_diseases().count(), m.recs[2].len())?;
    for (r, ds) in &m.recs[0] {
        let g = ont.gene(&GeneId::from(*r)).ok_or("gene record missing")?;
        expect(&format!("direct terms of gene {r}"), grp(g.hpo_terms()), m.idset(ds))?;
    }
    for (r, ds) in &m.recs[1] {
        let g = ont.omim_disease(&OmimDiseaseId::from(*r)).ok_or("omim record missing")?;
        expect(&format!("direct terms of omim {r}"), grp(g.hpo_terms()), m.idset(ds))?;
    }
    for (r, ds) in &m.recs[2] {
        let g = ont.orpha_disease(&OrphaDiseaseId::from(*r)).ok_or("orpha record missing")?;
        expect(&format!("direct terms of orpha {r}"), grp(g.hpo_terms()), m.idset(ds))?;
    }
    Ok(())
}

pub fn check_c03(c: &Case) -> Check {
    let m = Model::new(c);
    let ont = build(c, false)?;
    for t in 0..m.n {
        let h = ont.hpo(m.ids[t]).ok_or("term missing")?;
        let ic = h.information_content();
        let exp = [
            ic_expected(m.recs[0].len(), m.linked(0, t).len()),
            ic_expected(m.recs[1].len(), m.linked(1, t).len()),
            ic_expected(m.recs[2].len(), m.linked(2, t).len()),
        ];
        expect(&format!("gene IC of {}", m.ids[t]), ic.gene().to_bits(), exp[0].to_bits())?;
        expect(&format!("omim IC of {}", m.ids[t]), ic.omim_disease().to_bits(), exp[1].to_bits())?;
        expect(&format!("orpha IC of {}", m.ids[t]), ic.orpha_disease().to_bits(), exp[2].to_bits())?;
        expect("get_kind(Gene)", ic.get_kind(&InformationContentKind::Gene).to_bits(), exp[0].to_bits())?;
        expect("get_kind(Omim)", ic.get_kind(&InformationContentKind::Omim).to_bits(), exp[1].to_bits())?;
        expect("get_kind(Orpha)", ic.get_kind(&InformationContentKind::Orpha).to_bits(), exp[2].to_bits())?;
        for v in exp {
            if !(v.is_finite() && v >= 0.0) {
                return Err(format!("IC {v} is negative or not finite"));
            }
        }
    }
    Ok(())
}

pub fn check_c10(c: &Case) -> Check {
    let m = Model::new(c);
    let ont = build(c, false)?;
    let present: BTreeSet<u32> = m.ids.iter().copied().collect();
    let mut probes: BTreeSet<u32> = [0u32, 1, 2, 117, 118, 119, 9_999_998, 9_999_999, 10_000_000, 10_000_001, u32::MAX].into_iter().collect();
    for &i in &m.ids {
        probes.insert(i);
        probes.insert(i.wrapping_add(1));
        probes.insert(i.wrapping_sub(1));
    }
    for p in probes {
        let got = panic::catch_unwind(panic::AssertUnwindSafe(|| ont.hpo(p).map(|t| (t.id().as_u32(), t.name().to_string()))));
        let got = got.map_err(|_| format!("hpo({p}) panicked"))?;
        let exp = if present.contains(&p) {
            let node = m.ids.iter().position(|&x| x == p).unwrap();
            Some((p, name_of(node)))
        } else {
            None
        };
        expect(&format!("hpo({p})"), got, exp)?;
    }
    expect("len()", ont.len(), m.n)?;
    let mut seen: Vec<u32> = ont.iter().map(|t| t.id().as_u32()).collect();
    seen.sort_unstable();
    expect("iter() yields every term exactly once", seen, present.iter().copied().collect::<Vec<u32>>())?;
    for k in 0..3 {
        for probe in [0u32, 1, 2, 3, 4, 77, u32::MAX] {
            let exp = m.recs[k].contains_key(&probe);
            let got = match k {
                0 => ont.gene(&GeneId::from(probe)).map(|g| g.id().as_u32()),
                1 => ont.omim_disease(&OmimDiseaseId::from(probe)).map(|g| g.id().as_u32()),
                _ => ont.orpha_disease(&OrphaDiseaseId::from(probe)).map(|g| g.id().as_u32()),
            };
            expect(&format!("record lookup kind {k} id {probe}"), got, if exp { Some(probe) } else { None })?;
        }
    }
    for (r, _) in &m.recs[0] {
        let g = ont.gene_by_name(&format!("G{r}")).ok_or("gene_by_name misses a gene")?;
        expect("gene_by_name", g.id().as_u32(), *r)?;
    }
    if ont.gene_by_name("no such gene").is_some() {
        return Err("gene_by_name finds a gene that does not exist".into());
    }
    for (r, _) in &m.recs[1] {
        let found: BTreeSet<u32> = ont.omim_diseases_by_name(&format!("O{r}")).map(|d| d.id().as_u32()).collect();
        let exp: BTreeSet<u32> = m.recs[1].keys().filter(|x| format!("O{x}").contains(&format!("O{r}"))).copied().collect();
        expect("omim_diseases_by_name", found, exp)?;
    }
    Ok(())
}

fn group_of(s: &BTreeSet<u32>) -> HpoGroup {
    let mut g = HpoGroup::new();
    // insert in descending order so that insertion order differs from sorted order
    for x in s.iter().rev() {
        g.insert(*x);
    }
    g
}

fn check_group_algebra(a: &BTreeSet<u32>, b: &BTreeSet<u32>) -> Check {
    let ga = group_of(a);
    let gb = group_of(b);
    let it: Vec<u32> = ga.iter().map(|x| x.as_u32()).collect();
    expect("iteration is the ascending set", it.clone(), a.iter().copied().collect::<Vec<u32>>())?;
    expect("len", ga.len(), a.len())?;
    let u: Vec<u32> = (&ga | &gb).iter().map(|x| x.as_u32()).collect();
    expect(&format!("{a:?} | {b:?}"), u, a.union(b).copied().collect::<Vec<u32>>())?;
    let i: Vec<u32> = (&ga & &gb).iter().map(|x| x.as_u32()).collect();
    expect(&format!("{a:?} & {b:?}"), i, a.intersection(b).copied().collect::<Vec<u32>>())?;
    for probe in a.iter().chain(b.iter()).copied().chain([0u32, 7777]) {
        expect("contains", ga.contains(&probe.into()), a.contains(&probe))?;
        let mut exp = a.clone();
        exp.insert(probe);
        let plus: Vec<u32> = (&ga + HpoTermId::from(probe)).iter().map(|x| x.as_u32()).collect();
        expect(&format!("{a:?} + {probe}"), plus, exp.iter().copied().collect::<Vec<u32>>())?;
        let bor: Vec<u32> = (&ga | HpoTermId::from(probe)).iter().map(|x| x.as_u32()).collect();
        expect(&format!("{a:?} | {probe}"), bor, exp.iter().copied().collect::<Vec<u32>>())?;
        let mut g2 = group_of(a);
        expect("insert reports new", g2.insert(probe), !a.contains(&probe))?;
    }
    let from_vec: Vec<u32> = HpoGroup::from(a.iter().rev().copied().collect::<Vec<u32>>()).iter().map(|x| x.as_u32()).collect();
    expect("From<Vec<u32>>", from_vec, a.iter().copied().collect::<Vec<u32>>())?;
    let hs: std::collections::HashSet<HpoTermId> = a.iter().map(|x| HpoTermId::from(*x)).collect();
    let from_hs: Vec<u32> = HpoGroup::from(hs).iter().map(|x| x.as_u32()).collect();
    expect("From<HashSet>", from_hs, a.iter().copied().collect::<Vec<u32>>())?;
    let from_it: Vec<u32> = a.iter().rev().map(|x| HpoTermId::from(*x)).collect::<HpoGroup>().iter().map(|x| x.as_u32()).collect();
    expect("FromIterator", from_it, a.iter().copied().collect::<Vec<u32>>())?;
    Ok(())
}

/// all pairs of subsets of a small universe (+ in thorough: sizes across the inline-storage limit of 30)
pub fn check_c12_groups(thorough: bool) -> Result<usize, String> {
    let uni: Vec<u32> = vec![1, 2, 3, 5, 8];
    let mut cases = 0;
    for ma in 0..(1u32 << uni.len()) {
        for mb in 0..(1u32 << uni.len()) {
            let a: BTreeSet<u32> = uni.iter().enumerate().filter(|(k, _)| ma >> k & 1 == 1).map(|(_, v)| *v).collect();
            let b: BTreeSet<u32> = uni.iter().enumerate().filter(|(k, _)| mb >> k & 1 == 1).map(|(_, v)| *v).collect();
            check_group_algebra(&a, &b).map_err(|e| format!("groups {a:?} {b:?}: {e}"))?;
            cases += 1;
        }
    }
    let sizes: &[usize] = if thorough { &[0, 1, 29, 30, 31, 45] } else { &[29, 31] };
    for &sa in sizes {
        for &sb in sizes {
            for off in [0u32, 1, 29, 30, 31, 100] {
                let a: BTreeSet<u32> = (1..=sa as u32).collect();
                let b: BTreeSet<u32> = (1..=sb as u32).map(|x| x + off).collect();
                check_group_algebra(&a, &b).map_err(|e| format!("groups 1..={sa} and {}..: {e}", 1 + off))?;
                let a2: BTreeSet<u32> = (1..=sa as u32).map(|x| 2 * x).collect();
                check_group_algebra(&a2, &b).map_err(|e| format!("groups 2*(1..={sa}) and {}..: {e}", 1 + off))?;
                cases += 2;
            }
        }
    }
    Ok(cases)
}

pub fn check_c12(c: &Case) -> Check {
    let m = Model::new(c);
    let ont = build(c, false)?;
    for t in 0..m.n {
        for u in 0..m.n {
            let a = ont.hpo(m.ids[t]).unwrap();
            let b = ont.hpo(m.ids[u]).unwrap();
            let (at, au) = (m.idset(&m.anc[t]), m.idset(&m.anc[u]));
            expect("common_ancestor_ids", grp(&a.common_ancestor_ids(&b)), at.intersection(&au).copied().collect())?;
            let mut ats = at.clone();
            ats.insert(m.ids[t]);
            let mut aus = au.clone();
            aus.insert(m.ids[u]);
            expect("all_common_ancestor_ids", grp(&a.all_common_ancestor_ids(&b)), ats.intersection(&aus).copied().collect())?;
            expect("union_ancestor_ids", grp(&a.union_ancestor_ids(&b)), at.union(&au).copied().collect())?;
            expect("all_union_ancestor_ids", grp(&a.all_union_ancestor_ids(&b)), at.union(&au).copied().collect())?;
            let ca: BTreeSet<u32> = a.common_ancestors(&b).iter().map(|x| x.id().as_u32()).collect();
            expect("common_ancestors", ca, at.intersection(&au).copied().collect())?;
            let aca: BTreeSet<u32> = a.all_common_ancestors(&b).iter().map(|x| x.id().as_u32()).collect();
            expect("all_common_ancestors", aca, ats.intersection(&aus).copied().collect())?;
            let ua: BTreeSet<u32> = a.union_ancestors(&b).iter().map(|x| x.id().as_u32()).collect();
            expect("union_ancestors", ua, at.union(&au).copied().collect())?;
        }
    }
    Ok(())
}

/// idmap 0 only: node 0 = HP:1, node 1 = HP:118
pub fn check_c19(c: &Case) -> Check {
    let m = Model::new(c);
    let res = build(c, true);
    let has118 = m.n > 1;
    if !has118 {
        return match res {
            Err(_) => Ok(()),
            Ok(_) => Err("build_with_defaults succeeded without HP:0000118".into()),
        };
    }
    let ont = res?;
    let modifier: BTreeSet<usize> = m.children[0].iter().copied().filter(|&x| x != 1).collect();
    let mut cats = modifier.clone();
    cats.extend(m.children[1].iter().copied());
    expect("modifier roots", grp(ont.modifier()), m.idset(&modifier))?;
    expect("categories", grp(ont.categories()), m.idset(&cats))?;
    for t in 0..m.n {
        let h = ont.hpo(m.ids[t]).unwrap();
        let is_mod = modifier.iter().any(|&r| r == t || m.anc[t].contains(&r));
        expect(&format!("is_modifier({})", m.ids[t]), h.is_modifier(), is_mod)?;
        let mut ec: Vec<u32> = cats.iter().filter(|&&r| r == t || m.anc[t].contains(&r)).map(|&r| m.ids[r]).collect();
        ec.sort_unstable();
        let gc: Vec<u32> = h.categories().iter().map(|x| x.as_u32()).collect();
        expect(&format!("categories({})", m.ids[t]), gc, ec)?;
    }
    Ok(())
}

pub fn check_c13(c: &Case) -> Check {
    let m = Model::new(c);
    if m.n < 2 {
        return Ok(());
    }
    let ont = build(c, true)?;
    let modifier: BTreeSet<usize> = m.children[0].iter().copied().filter(|&x| x != 1).collect();
    let mut cats = modifier.clone();
    cats.extend(m.children[1].iter().copied());
    for mask in 0..(1u32 << m.n) {
        let members: BTreeSet<usize> = (0..m.n).filter(|k| mask >> k & 1 == 1).collect();
        let g = group_of(&m.idset(&members));
        let set = HpoSet::new(&ont, g.clone());
        expect("len", set.len(), members.len())?;
        let got: BTreeSet<u32> = set.iter().map(|t| t.id().as_u32()).collect();
        expect("iter", got, m.idset(&members))?;
        // child_nodes: members without a descendant in the set
        let exp: BTreeSet<usize> = members.iter().copied().filter(|&x| !members.iter().any(|&y| m.anc[y].contains(&x))).collect();
        let got: BTreeSet<u32> = set.child_nodes().iter().map(|t| t.id().as_u32()).collect();
        expect(&format!("child_nodes of {:?}", m.idset(&members)), got, m.idset(&exp))?;
        // modifiers
        let exp: BTreeSet<usize> = members.iter().copied().filter(|&x| !modifier.iter().any(|&r| r == x || m.anc[x].contains(&r))).collect();
        let got: BTreeSet<u32> = set.without_modifier().iter().map(|t| t.id().as_u32()).collect();
        expect(&format!("without_modifier of {:?}", m.idset(&members)), got, m.idset(&exp))?;
        let mut s2 = HpoSet::new(&ont, g.clone());
        s2.remove_modifier();
        let got: BTreeSet<u32> = s2.iter().map(|t| t.id().as_u32()).collect();
        expect(&format!("remove_modifier of {:?}", m.idset(&members)), got, m.idset(&exp))?;
        // obsolete / replacement: none in builder-made ontologies: identity
        let got: BTreeSet<u32> = set.without_obsolete().iter().map(|t| t.id().as_u32()).collect();
        expect("without_obsolete", got, m.idset(&members))?;
        let mut s3 = HpoSet::new(&ont, g.clone());
        s3.remove_obsolete();
        expect("remove_obsolete", s3.len(), members.len())?;
        let got: BTreeSet<u32> = set.with_replaced_obsolete().iter().map(|t| t.id().as_u32()).collect();
        expect("with_replaced_obsolete", got, m.idset(&members))?;
        let mut s4 = HpoSet::new(&ont, g.clone());
        s4.replace_obsolete();
        expect("replace_obsolete", s4.len(), members.len())?;
        // unions of annotations
        for k in 0..3 {
            let mut exp: BTreeSet<u32> = BTreeSet::new();
            for &x in &members {
                exp.extend(m.linked(k, x));
            }
            let got: BTreeSet<u32> = match k {
                0 => set.gene_ids().iter().map(|x| x.as_u32()).collect(),
                1 => set.omim_disease_ids().iter().map(|x| x.as_u32()).collect(),
                _ => set.orpha_disease_ids().iter().map(|x| x.as_u32()).collect(),
            };
            expect(&format!("annotation union kind {k} of {:?}", m.idset(&members)), got, exp)?;
        }
        let mut gu: BTreeSet<u32> = BTreeSet::new();
        let mut ou: BTreeSet<u32> = BTreeSet::new();
        for &x in &members {
            gu.extend(m.linked(0, x));
            ou.extend(m.linked(1, x));
        }
        let ic = set.information_content().map_err(|e| format!("information_content failed: {e}"))?;
        expect("set gene IC", ic.gene().to_bits(), ic_expected(m.recs[0].len(), gu.len()).to_bits())?;
        expect("set omim IC", ic.omim_disease().to_bits(), ic_expected(m.recs[1].len(), ou.len()).to_bits())?;
        // category counts
        let mut expc: BTreeMap<u32, usize> = BTreeMap::new();
        for &x in &members {
            for &r in &cats {
                if r == x || m.anc[x].contains(&r) {
                    *expc.entry(m.ids[r]).or_default() += 1;
                }
            }
        }
        let gotc: BTreeMap<u32, usize> = set.categories().iter().map(|(k, v)| (k.as_u32(), *v)).collect();
        expect(&format!("category counts of {:?}", m.idset(&members)), gotc, expc)?;
    }
    Ok(())
}

/// failing builder calls interleaved with the successful ones of the case must have no effect
pub fn check_c15(c: &Case) -> Check {
    let m = Model::new(c);
    let clean = walk(&build(c, false)?);
    let missing = [77_777u32, 0u32];
    let r = panic::catch_unwind(|| -> Result<String, String> {
        let mut b = Builder::new();
        for node in node_order(c.n, c.order) {
            b.new_term(&name_of(node), m.ids[node]);
            // re-adding an existing term is a no-op
            b.new_term("other name", m.ids[node]);
        }
        let mut b = b.terms_complete();
        for (k, (i, j)) in pairs(c.n).into_iter().enumerate() {
            for &mi in &missing {
                if b.add_parent(m.ids[i], mi).is_ok() {
                    return Err(format!("add_parent({}, {mi}) on a missing child succeeded", m.ids[i]));
                }
                if b.add_parent(mi, m.ids[j]).is_ok() {
                    return Err(format!("add_parent({mi}, {}) on a missing parent succeeded", m.ids[j]));
                }
            }
            if c.edges >> k & 1 == 1 {
                b.add_parent(m.ids[i], m.ids[j]).map_err(|e| format!("{e}"))?;
            }
        }
        let mut b = b.connect_all_terms();
        for &mi in &missing {
            if b.annotate_gene(GeneId::from(901), "X", mi.into()).is_ok()
                || b.annotate_omim_disease(OmimDiseaseId::from(902), "X", mi.into()).is_ok()
                || b.annotate_orpha_disease(OrphaDiseaseId::from(903), "X", mi.into()).is_ok()
            {
                return Err("annotate_* on a missing term succeeded".into());
            }
        }
        for &(k, r, d) in &c.facts {
            let t: HpoTermId = m.ids[d as usize].into();
            for &mi in &missing {
                // an existing record annotated to a missing term: error, record unchanged
                let bad = match k {
                    0 => b.annotate_gene(GeneId::from(r), "X", mi.into()).is_ok(),
                    1 => b.annotate_omim_disease(OmimDiseaseId::from(r), "X", mi.into()).is_ok(),
                    _ => b.annotate_orpha_disease(OrphaDiseaseId::from(r), "X", mi.into()).is_ok(),
                };
                if bad {
                    return Err("annotate_* on a missing term succeeded".into());
                }
            }
            match k {
                0 => b.annotate_gene(GeneId::from(r), &format!("G{r}"), t),
                1 => b.annotate_omim_disease(OmimDiseaseId::from(r), &format!("O{r}"), t),
                _ => b.annotate_orpha_disease(OrphaDiseaseId::from(r), &format!("R{r}"), t),
            }
            .map_err(|e| format!("{e}"))?;
        }
        let ont = b.calculate_information_content().map_err(|e| format!("{e}"))?.build_minimal();
        Ok(walk(&ont))
    });
    match r {
        Err(_) => Err("read API panicked after rejected builder calls".into()),
        Ok(Err(e)) => Err(e),
        Ok(Ok(w)) => {
            if w == clean {
                Ok(())
            } else {
                Err(format!("rejected calls changed the ontology:\n with: {w}\n without: {clean}"))
            }
        }
    }
}

/// the same facts in every supply order give observationally identical ontologies
pub fn check_c16(c: &Case) -> Check {
    let base = walk(&build(c, false)?);
    for order in 0..4u8 {
        let mut c2 = c.clone();
        c2.order = order;
        if order & 2 == 2 {
            c2.facts.reverse();
        }
        let w = walk(&build(&c2, false)?);
        if w != base {
            return Err(format!("supply order {order} gives a different ontology:\n {w}\n vs order {}:\n {base}", c.order));
        }
    }
    // binary round trip through the records in hash-map order
    if c.idmap == 0 && c.n > 1 && c.edges & 1 == 1 {
        let o = build(c, true)?;
        let o2 = Ontology::from_bytes(&o.as_bytes()).map_err(|e| format!("from_bytes(as_bytes()) failed: {e}"))?;
        if walk_with(&o, true) != walk(&o2) {
            return Err("binary round trip differs".into());
        }
    }
    Ok(())
}

/// as_bytes -> from_bytes is the identity on observations (idmap 0 with edge HP:1 -> HP:118)
pub fn check_c07(c: &Case) -> Check {
    if c.n < 2 || c.edges & 1 == 0 {
        return Ok(());
    }
    let o = build(c, true)?;
    let bytes = o.as_bytes();
    let r = panic::catch_unwind(|| Ontology::from_bytes(&bytes));
    let o2 = match r {
        Err(_) => return Err("from_bytes panicked on the writer's output".into()),
        Ok(Err(e)) => return Err(format!("from_bytes rejected the writer's output: {e}")),
        Ok(Ok(o2)) => o2,
    };
    let (w1, w2) = (walk_with(&o, true), walk(&o2));
    if w1 != w2 {
        return Err(format!("round trip differs:\n before: {w1}\n after:  {w2}"));
    }
    let cmp = o.compare(&o2);
    if c.n <= 3 && !(cmp.added_hpo_terms().is_empty() && cmp.removed_hpo_terms().is_empty() && cmp.changed_hpo_terms().is_empty()
        && cmp.added_genes().is_empty() && cmp.removed_genes().is_empty() && cmp.changed_genes().is_empty()
        && cmp.added_omim_diseases().is_empty() && cmp.removed_omim_diseases().is_empty() && cmp.changed_omim_diseases().is_empty()
        && cmp.added_orpha_diseases().is_empty() && cmp.removed_orpha_diseases().is_empty() && cmp.changed_orpha_diseases().is_empty())
    {
        return Err("compare() reports differences after a binary round trip".into());
    }
    Ok(())
}

// ------------------------------------------------------------------------------------------------ enumeration
pub fn fact_sets(n: usize, thorough: bool) -> Vec<Vec<(u8, u32, u8)>> {
    let mut v: Vec<Vec<(u8, u32, u8)>> = vec![vec![]];
    // one record of each kind on one node; totals differ per kind
    for d in 0..n as u8 {
        v.push(vec![(0, 1, d), (1, 2, d), (1, 3, 0), (2, 4, d), (2, 5, 0), (2, 6, 0)]);
    }
    // ordered pairs of facts for the same record (both orders are different cases), per kind
    for k in 0..3u8 {
        for d1 in 0..n as u8 {
            for d2 in 0..n as u8 {
                if !thorough && (d1 + d2 + k) % 2 == 1 && n > 3 {
                    continue;
                }
                v.push(vec![(k, 1, d1), (k, 1, d2), (k, 2, 0), ((k + 1) % 3, 1, d2)]);
            }
        }
    }
    v
}

pub fn cases(thorough: bool, idmaps: &[u8], with_facts: bool) -> Vec<Case> {
    let maxn = if thorough { 5 } else { 4 };
    let mut out = vec![];
    for n in 1..=maxn {
        let np = pairs(n).len();
        for edges in 0..(1u32 << np) {
            for &idmap in idmaps {
                for order in 0..(if thorough { 4 } else { 2 }) {
                    if with_facts {
                        // at n = 5 the fact sets are thinned out in quick mode only
                        for f in fact_sets(n, thorough || n < 4) {
                            out.push(Case { n, edges, idmap, order, facts: f });
                        }
                    } else {
                        out.push(Case { n, edges, idmap, order, facts: vec![] });
                    }
                }
            }
        }
    }
    out
}

pub fn run_parallel(cs: Vec<Case>, f: fn(&Case) -> Check) -> Result<usize, (Case, String)> {
    let n = cs.len();
    let nthreads = std::thread::available_parallelism().map(|x| x.get()).unwrap_or(4).min(16);
    let cs = std::sync::Arc::new(cs);
    let mut handles = vec![];
    for t in 0..nthreads {
        let cs = cs.clone();
        handles.push(std::thread::spawn(move || -> Option<(usize, String)> {
            let mut i = t;
            while i < cs.len() {
                let c = &cs[i];
                let r = panic::catch_unwind(|| f(c));
                match r {
                    Err(_) => return Some((i, "panicked".to_string())),
                    Ok(Err(e)) => return Some((i, e)),
                    Ok(Ok(())) => {}
                }
                i += nthreads;
            }
            None
        }));
    }
    let mut first: Option<(usize, String)> = None;
    for h in handles {
        if let Ok(Some((i, e))) = h.join() {
            if first.as_ref().map_or(true, |(j, _)| i < *j) {
                first = Some((i, e));
            }
        }
    }
    match first {
        Some((i, e)) => Err((cs[i].clone(), e)),
        None => Ok(n),
    }
}

pub fn oracle(prop: &str) -> Option<(fn(&Case) -> Check, &'static [u8], bool)> {
    // (oracle, id maps, with annotation facts)
    Some(match prop {
        "C01" => (check_c01, &[0, 1, 2], false),
        "C02" => (check_c02, &[1], true),
        "C03" => (check_c03, &[1], true),
        "C07" => (check_c07, &[0], true),
        "C10" => (check_c10, &[0, 2], true),
        "C12" => (check_c12, &[1, 2], false),
        "C13" => (check_c13, &[0], true),
        "C15" => (check_c15, &[1], true),
        "C16" => (check_c16, &[0, 1], true),
        "C19" => (check_c19, &[0], false),
        _ => return None,
    })
}

pub fn explore(prop: &str, thorough: bool) -> i32 {
    panic::set_hook(Box::new(|_| {}));
    let Some((f, idmaps, with_facts)) = oracle(prop) else {
        println!("EXPLORE-NONE property={prop} no bounded explorer");
        return 0;
    };
    let mut extra = 0;
    if prop == "C12" {
        match check_c12_groups(thorough) {
            Ok(n) => extra = n,
            Err(e) => {
                println!("EXPLORE-VIOLATION property={prop} case=groups what={}", e.replace('\n', " | "));
                return 1;
            }
        }
    }
    let cs = cases(thorough, idmaps, with_facts);
    let distinct: BTreeSet<(usize, u32)> = cs.iter().map(|c| (c.n, c.edges)).collect();
    let sample = cs.get(cs.len() / 2).map(|c| c.id()).unwrap_or_default();
    match run_parallel(cs, f) {
        Ok(n) => {
            println!(
                "EXPLORE-OK property={prop} cases={} distinct_dags={} max_terms={} sample={sample}",
                n + extra,
                distinct.len(),
                if thorough { 5 } else { 4 }
            );
            0
        }
        Err((c, e)) => {
            println!("EXPLORE-VIOLATION property={prop} case={} what={}", c.id(), e.replace('\n', " | "));
            1
        }
    }
}

pub fn replay_case(prop: &str, id: &str) -> (bool, String) {
    panic::set_hook(Box::new(|_| {}));
    if id == "groups" {
        return match check_c12_groups(true) {
            Ok(_) => (false, "group algebra as specified".into()),
            Err(e) => (true, e),
        };
    }
    let Some((f, _, _)) = oracle(prop) else {
        return (false, format!("no explorer for {prop}"));
    };
    let Some(c) = Case::parse(id) else {
        return (false, format!("cannot parse case {id}"));
    };
    match panic::catch_unwind(|| f(&c)) {
        Err(_) => (true, format!("case {id}: panicked")),
        Ok(Err(e)) => (true, format!("case {id} (terms {:?}): {e}", ids(c.idmap, c.n))),
        Ok(Ok(())) => (false, format!("case {id}: as specified")),
    }
}
