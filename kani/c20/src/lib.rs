//! Kani harnesses for C20 (term-id text and byte conversions), run against the real crate in /repo
//! (path dependency, rebuilt from the working tree on every run).
#![allow(unused)]
use hpo::annotations::AnnotationId;
use hpo::HpoTermId;

/// COMPLETE (loop-free, all 2^32 inputs): big-endian bytes <-> id are mutually inverse, and the u32/u16
/// constructors/accessors agree.
#[cfg(kani)]
#[kani::proof]
fn c20_bytes_roundtrip() {
    let x: u32 = kani::any();
    let id = HpoTermId::from_u32(x);
    assert!(id.as_u32() == x);
    assert!(HpoTermId::from(x) == id);
    assert!(id.to_be_bytes() == x.to_be_bytes());
    assert!(id.to_be_bytes()[0] == (x >> 24) as u8);
    assert!(id.to_be_bytes()[1] == (x >> 16) as u8);
    assert!(id.to_be_bytes()[2] == (x >> 8) as u8);
    assert!(id.to_be_bytes()[3] == x as u8);
    assert!(HpoTermId::from(id.to_be_bytes()) == id);
    let b: [u8; 4] = kani::any();
    assert!(HpoTermId::from(b).to_be_bytes() == b);
    let y: u16 = kani::any();
    assert!(HpoTermId::from(y).as_u32() == y as u32);
}

/// Oracle for `TryFrom<&str>`: the text after the three-byte prefix is an unsigned 32-bit decimal number
/// (what `u32::from_str` accepts: optional leading '+', then at least one ASCII digit, value <= u32::MAX).
fn oracle(bytes: &[u8]) -> Option<u32> {
    if bytes.len() < 4 {
        return None;
    }
    let mut i = 3;
    if bytes[i] == b'+' {
        i += 1;
    }
    if i >= bytes.len() {
        return None;
    }
    let mut v: u64 = 0;
    while i < bytes.len() {
        let c = bytes[i];
        if !(b'0'..=b'9').contains(&c) {
            return None;
        }
        v = v * 10 + (c - b'0') as u64;
        if v > u32::MAX as u64 {
            return None;
        }
        i += 1;
    }
    Some(v as u32)
}

#[cfg(kani)]
fn check_len<const N: usize>() {
    let bytes: [u8; N] = kani::any();
    if let Ok(s) = core::str::from_utf8(&bytes) {
        // no panic on any valid UTF-8 text of this length, and the result is what the statement says
        let r = HpoTermId::try_from(s);
        match oracle(&bytes) {
            Some(v) => assert!(matches!(r, Ok(id) if id.as_u32() == v)),
            None => assert!(r.is_err()),
        }
    }
}

macro_rules! text_harness {
    ($name:ident, $n:expr, $unwind:expr) => {
        /// BOUNDED stand-in: every valid UTF-8 string of exactly $n bytes.
        #[cfg(kani)]
        #[kani::proof]
        #[kani::unwind($unwind)]
        fn $name() {
            check_len::<$n>();
        }
    };
}
text_harness!(c20_try_from_len0, 0, 3);
text_harness!(c20_try_from_len1, 1, 4);
text_harness!(c20_try_from_len2, 2, 5);
text_harness!(c20_try_from_len3, 3, 6);
text_harness!(c20_try_from_len4, 4, 7);
text_harness!(c20_try_from_len5, 5, 8);
text_harness!(c20_try_from_len6, 6, 9);
text_harness!(c20_try_from_len7, 7, 10);
text_harness!(c20_try_from_len8, 8, 11);

/// COMPLETE (loop-free, all inputs): the contracts of the R6 wrappers `w_u32_to_be_bytes`, `w_u32_from_be_bytes`,
/// `w_u16_*`, `w_u8_from_be_bytes` used by the Verus units (bytes.vrs): the std conversions are exactly the
/// arithmetic big-endian layout functions be4 / de4 of the contracts.
#[cfg(kani)]
#[kani::proof]
fn wrappers_be_bytes_contract() {
    let x: u32 = kani::any();
    let b = x.to_be_bytes();
    assert!(b[0] == (x / 0x100_0000) as u8);
    assert!(b[1] == ((x / 0x1_0000) % 0x100) as u8);
    assert!(b[2] == ((x / 0x100) % 0x100) as u8);
    assert!(b[3] == (x % 0x100) as u8);
    let c: [u8; 4] = kani::any();
    let y = u32::from_be_bytes(c);
    assert!(y as u64 == c[0] as u64 * 0x100_0000 + c[1] as u64 * 0x1_0000 + c[2] as u64 * 0x100 + c[3] as u64);
    let h: u16 = kani::any();
    let hb = h.to_be_bytes();
    assert!(hb[0] == (h / 0x100) as u8 && hb[1] == (h % 0x100) as u8);
    let d: [u8; 2] = kani::any();
    assert!(u16::from_be_bytes(d) as u32 == d[0] as u32 * 0x100 + d[1] as u32);
    let e: [u8; 1] = kani::any();
    assert!(u8::from_be_bytes(e) == e[0]);
}
