#!/usr/bin/env python3
"""Extractor: builds one single-file Verus input from a unit template (.vrs) and /repo sources.

The template is ghost text (spec fns, lemmas, trusted specs) plus directives (`//@...`) that pull
real items out of /repo by *byte range* and attach annotations at anchors.  Nothing of the
executable code is ever re-typed here: every byte of executable code in the output is either
copied from the source file, or produced by a logged rewrite (`//@rw <rule> ...`) / drop.

Directives (one per line, payload = following non-directive lines):
  //@src <path relative to repo>
  //@include <other.vrs> [assume|opaque]  assume: bodies external_body, contracts kept (proved in another unit);
                                        opaque: bodies external_body, contracts dropped (callers learn nothing, totality assumed)
  //@rwall <rule> `from` => `to`          rewrite applied to every item emitted afterwards (any count)
  //@item <kind> <name> [pubfields]       emit a whole item (struct/enum/const/type/fn/impl header text for impl)
  //@impl <normalized impl header>[ #n]   open an impl block; assoc types/consts are emitted automatically
  //@fn <name> [-> <ret>] [#n]            emit a fn (member of the open impl, or a free fn of the file)
  //@rw <rule> <count> `from` => `to`     rewrite inside the current fn/item (exactly <count> matches; `*` = every match, at least one; `?` = every match, possibly none)
  //@opaque                               this fn is opaque in this unit (signature only; body dropped, D-body)
  //@attr                                 payload placed before the fn (e.g. #[verifier::external_body])
  //@sig                                  payload placed after the signature (requires/ensures/decreases)
  //@loop <n>                             payload placed after the header of the n-th loop of the fn
  //@loopstart <n> / //@loopend <n>       payload placed at the start / end of the n-th loop's body
  //@before `anchor`[ #n]                 payload placed before the n-th occurrence of the anchor tokens
  //@after `anchor`[ #n]                  payload placed after it
  //@afterstmt / //@beforestmt `anchor`   payload placed after / before the whole statement that contains the anchor
  //@atend                                payload placed before the closing brace of the fn body
  //@tail <name>                          names the tail expression (`let name = <tail>; payload; name`), insertions only
  //@end                                  closes the current fn
  //@endimpl
Everything else is copied verbatim (ghost text).
"""
import hashlib
import json
import os
import re
import sys

sys.path.insert(0, os.path.dirname(os.path.abspath(__file__)))
import rstok
from rstok import tokenize, match_brackets, scan_items, find_loops, find_seq, norm

RULES = {
    "R1": "SmallVec<[T;N]> -> Vec<T> (type/constructor substitution)",
    "R2": "generic `I: Into<X>` instantiated at X; `.into()` on it dropped",
    "R3": "trait impl header/method emitted as inherent fn (header only)",
    "R4": "error conversion `?` kept/explicit",
    "R5": "`mut self` receiver -> `self` + `let mut this = self;`",
    "R6": "be_bytes calls redirected to prelude wrappers (contract proved by Kani)",
    "R7": "reference-left binary operator -> method-call form",
    "R8": "`crate::`/module path prefix removed or constant path renamed (single-file unit has one module)",
    "R9": "panic-family macro with format arguments -> same macro without the formatted message",
    "R10": "type alias / `Self::X` assoc-type path spelled out",
    "R12": "one-line forwarding over a generic SliceIndex (`impl Index for Bytes`, `Bytes::subset`) inlined at the call site: `b[i]` -> `b.data[i]`, `b.subset(r)` -> `Bytes::new(&b.data[r], b.version)`",
    "R13": "std associated constant read through a prelude wrapper whose body is exactly that constant (`f64::NEG_INFINITY` -> `w_f64_neg_infinity()`)",
    "R15": "closure parameter pattern moved into a let-binding: `|(a, b)| e` -> `|p| { let (a, b) = p; e }` (Verus accepts only variable parameters; the replacement text may carry the closure's ghost contract)",
    "R16": "`if c { continue; } rest` at the top level of a for-loop body written as `if c { } else { rest }` (Verus for-loops do not support `continue`)",
    "R17": "`&HashSet | &HashSet` / `&HashSet & &HashSet` (std operator impls whose signature cannot be named in an assume_specification) redirected to prelude wrappers whose bodies are exactly those operator expressions",
    "R18": "`v.iter().sum::<f32>()` (a provided Iterator method: no specification can be attached to it) redirected to the prelude wrapper `w_f32_sum(&v)` whose body is exactly that expression; its value is the uninterpreted `f32_sum_spec(v@)`",
    "R19": "`x += e` on f32 (Verus 0.2026.09.13 panics in get_range Float(32) on compound float assignment) written as `x = x + e`",
    "R20": "`x.to_string()` through Display (core::fmt: no specification can be attached) redirected to the wrapper `w_display_to_string(x)` (a stub: the Display impls are not extracted); the text is the uninterpreted `display_text(x)`",
    "R21": "`iter.collect()` into a HashSet (vstd specifies collect only for Vec; HashSet is foreign, no FromIteratorSpecImpl can be added) written as `w_collect_id_set(iter)`, a wrapper whose body is exactly `it.collect()` (the postfix call becomes a prefix call: `= x.parents()` / `.collect();` are rewritten separately so that the closure in between stays verbatim)",
    "R22": "`a.difference(&b).copied().collect()` (hash_set::Difference, Copied: no specification within reach) redirected to the wrapper `w_id_set_difference(&a, &b)` whose body is exactly that expression",
    "R23": "`a.chain(b).collect()` into an HpoGroup (Iterator::chain is a provided method: no specification can be attached) written as `w_chain_collect_group(a, b)`, a wrapper whose body is exactly `first.chain(second).collect()` (the postfix chain becomes a prefix call; the filter closure in between stays verbatim)",
    "R24": "`iter.fold(HashSet::default(), |acc, element| &acc | element)` (Iterator::fold on an adapter: no specification can be attached) written as `w_union_all(iter)`, a wrapper whose body is exactly that fold (the postfix fold becomes a prefix call; the map closure in between stays verbatim)",
    "R25": "`map.values().find(p)` (Iterator::find is a provided method: no specification can be attached) written as `w_find_value(&map, p)`, a wrapper whose body is exactly `m.values().find(f)`; its assumed contract is the std one restricted to what an unordered map allows: Some(x) => x is a stored value and p(x) returned true; None => p returned false on every stored value",
    "R26": "`a == b` on two `&str` (core::str PartialEq: no specification within reach) written as `w_str_eq(a, b)`, a wrapper whose body is exactly `a == b`; assumed contract: true iff the two character sequences are equal",
    "R27": "`a.contains(b)` on two `&str` (core::str Pattern machinery: no specification within reach) written as `w_str_contains(a, b)`, a wrapper whose body is exactly `a.contains(b)`; its value is the uninterpreted `str_contains_spec(a@, b@)` (nothing is assumed about substring search itself)",
    "R11": "`const X: T = e;` written in Verus's exec-const form `exec const X: T ensures .. { e }` (same initializer expression)",
}

TRACE_MACROS = {"trace", "debug", "info", "warn", "error"}
KEEP_DERIVES = {"Clone", "Copy", "PartialEq", "Eq", "PartialOrd", "Ord", "Hash", "Default"}


class ExtractError(Exception):
    def __init__(self, reason, msg):
        super().__init__(msg)
        self.reason = reason


class SrcFile:
    cache = {}

    def __init__(self, repo, rel):
        self.rel = rel
        self.path = os.path.join(repo, rel)
        try:
            self.text = open(self.path, encoding="utf-8").read()
        except OSError as e:
            raise ExtractError("lost-anchor", f"source file missing: {rel}: {e}")
        try:
            self.toks = tokenize(self.text)
            self.brk = match_brackets(self.toks)
            self.items = scan_items(self.toks, self.brk, 0, len(self.toks))
        except rstok.TokError as e:
            raise ExtractError("parse-error", f"{rel}: {e}")

    def line_of(self, pos):
        return self.text.count("\n", 0, pos) + 1

    @classmethod
    def get(cls, repo, rel):
        k = (repo, rel)
        if k not in cls.cache:
            cls.cache[k] = SrcFile(repo, rel)
        return cls.cache[k]


def parse_backticks(s):
    """returns list of backtick-quoted strings in s and the remainder"""
    parts = re.findall(r"`([^`]*)`", s)
    rest = re.sub(r"`[^`]*`", "", s)
    return parts, rest


class Region:
    """One emitted source range with edits."""

    def __init__(self, sf, a, b, label):
        self.sf = sf
        self.a = a          # byte offsets in sf.text
        self.b = b
        self.label = label
        self.edits = []     # (start, end, text, kind, tag, seq)
        self.seq = 0

    def add(self, start, end, text, kind, tag):
        assert self.a <= start <= end <= self.b, (self.label, start, end, self.a, self.b)
        self.edits.append((start, end, text, kind, tag, self.seq))
        self.seq += 1

    def render(self):
        """returns (text, chunks) where chunks = list of dict(kind, text, src_a, src_b, tag)"""
        eds = sorted(self.edits, key=lambda e: (e[0], 0 if e[0] == e[1] else 1, e[5]))
        out = []
        pos = self.a
        for (s, e, text, kind, tag, _) in eds:
            if s < pos:
                raise ExtractError("extract-error", f"overlapping edits in {self.label} at {s} ({tag})")
            if s > pos:
                out.append(dict(kind="src", text=self.sf.text[pos:s], a=pos, b=s))
            out.append(dict(kind=kind, text=text, a=s, b=e, tag=tag, orig=self.sf.text[s:e]))
            pos = e
        if pos < self.b:
            out.append(dict(kind="src", text=self.sf.text[pos:self.b], a=pos, b=self.b))
        return out


class Extractor:
    def __init__(self, repo, contracts_dir, canary=False, force_demote=None, no_isolation=None):
        self.no_isolation = set(no_isolation or [])  # fn paths whose loops are verified without loop isolation (retry)
        self.force_demote = force_demote or {}   # fn path -> reason (compile-like error found by the verifier in it)
        self.canary = canary     # vacuity probe: `assert(false)` at the start of every function under contract
        self.repo = repo
        self.cdir = contracts_dir
        self.out = []            # list of text pieces
        self.line = 1
        self.fnmap = []          # function records
        self.insmap = []         # annotation records
        self.log = []            # drops/rewrites
        self.rwall = []          # (rule, from_toks, to_text)
        self.sf = None
        self.impl = None         # (Item, members, header text)
        self.regions_checked = 0
        self.src_files = set()

    # ---------- output helpers
    def emit(self, text):
        self.out.append(text)
        self.line += text.count("\n")

    # ---------- global drops on a region (attributes, tracing macros)
    def apply_global_edits(self, region, t_lo, t_hi, noderive=(), keepderive=()):
        sf = region.sf
        toks, brk = sf.toks, sf.brk
        i = t_lo
        while i <= t_hi:
            t = toks[i]
            if t.text == "#" and i + 1 <= t_hi and toks[i + 1].text == "[":
                close = brk[i + 1]
                inner = toks[i + 2:close]
                if inner and inner[0].text == "derive":
                    # filter derive list
                    names = [x.text for x in toks[i + 4:brk[i + 3]] if x.kind == "ident"]
                    keep = [n for n in names if (n in KEEP_DERIVES or n in keepderive) and n not in noderive]
                    if keep != names:
                        new = "#[derive(" + ", ".join(keep) + ")]" if keep else ""
                        region.add(t.start, toks[close].end, new, "drop", "D-attr derive " + ",".join(n for n in names if n not in keep))
                        self.log.append(dict(rule="D-attr", file=sf.rel, line=sf.line_of(t.start),
                                             before=sf.text[t.start:toks[close].end], after=new))
                elif inner and inner[0].text == "cfg":
                    pass  # keep cfg (should not occur in extracted items)
                else:
                    region.add(t.start, toks[close].end, "", "drop", "D-attr")
                    self.log.append(dict(rule="D-attr", file=sf.rel, line=sf.line_of(t.start),
                                         before=sf.text[t.start:toks[close].end], after=""))
                i = close + 1
                continue
            if (t.kind == "ident" and t.text == "pub" and i + 2 <= t_hi and toks[i + 1].text == "("
                    and toks[i + 2].text in ("crate", "super", "in", "self")):
                close = brk[i + 1]
                region.add(toks[i + 1].start, toks[close].end, "", "drop", "D-vis")
                self.log.append(dict(rule="D-vis", file=sf.rel, line=sf.line_of(t.start),
                                     before=sf.text[t.start:toks[close].end], after="pub"))
                i = close + 1
                continue
            # `trace!(..)` or the fully qualified `tracing::trace!(..)` / `log::trace!(..)` as a statement
            q = 0
            if (t.kind == "ident" and t.text in ("tracing", "log") and i + 4 <= t_hi and toks[i + 1].text == "::"
                    and toks[i + 2].kind == "ident" and toks[i + 2].text in TRACE_MACROS):
                q = 2
            if (toks[i + q].kind == "ident" and toks[i + q].text in TRACE_MACROS and i + q + 2 <= t_hi and toks[i + q + 1].text == "!"
                    and toks[i + q + 2].text == "(" and (i == 0 or toks[i - 1].text in (";", "{", "}", "=>"))):
                close = brk[i + q + 2]
                end = close
                if close + 1 <= t_hi and toks[close + 1].text == ";":
                    end = close + 1
                    repl = ""
                else:
                    repl = "()" if toks[i - 1].text == "=>" else ""
                region.add(t.start, toks[end].end, repl, "drop", "D-trace")
                self.log.append(dict(rule="D-trace", file=sf.rel, line=sf.line_of(t.start),
                                     before=sf.text[t.start:toks[end].end], after=repl))
                i = end + 1
                continue
            i += 1

    def apply_rw(self, region, t_lo, t_hi, rule, count, frm, to, where):
        if rule not in RULES:
            raise ExtractError("extract-error", f"unknown rewrite rule {rule} ({where})")
        sf = region.sf
        pt = tokenize(frm)
        hits = find_seq(sf.toks, t_lo, t_hi + 1, pt)
        # non-overlapping
        sel = []
        last = -1
        for h in hits:
            if h > last:
                sel.append(h)
                last = h + len(pt) - 1
        if count == -1:
            if not sel:
                raise ExtractError("lost-anchor", f"rewrite {rule} `{frm}` expected at least one match ({where})")
        elif count is not None and len(sel) != count:
            raise ExtractError("lost-anchor", f"rewrite {rule} `{frm}` expected {count} matches, found {len(sel)} ({where})")
        for h in sel:
            s = sf.toks[h].start
            e = sf.toks[h + len(pt) - 1].end
            region.add(s, e, to, "rw", rule)
            self.log.append(dict(rule=rule, file=sf.rel, line=sf.line_of(s), before=sf.text[s:e], after=to))
        return len(sel)

    def render_region(self, region):
        chunks = region.render()
        # erase check: chunk source ranges tile [a,b) exactly; src chunks are verbatim
        pos = region.a
        for c in chunks:
            if c["kind"] in ("ins", "rw-ins"):
                if c["a"] != pos:
                    raise ExtractError("extract-error", "erase check: insertion not at cursor")
                continue
            if c["a"] != pos:
                raise ExtractError("extract-error", "erase check: gap/overlap")
            if c["kind"] == "src" and c["text"] != region.sf.text[c["a"]:c["b"]]:
                raise ExtractError("extract-error", "erase check: source chunk altered")
            pos = c["b"]
        if pos != region.b:
            raise ExtractError("extract-error", "erase check: region not covered")
        # token-level erase check: tokens(generated minus ins, rw/drop reverted) == tokens(source)
        reverted = "".join((c["orig"] if c["kind"] in ("rw", "drop") else c["text"]) for c in chunks if c["kind"] not in ("ins", "rw-ins"))
        if [t.text for t in tokenize(reverted)] != [t.text for t in tokenize(region.sf.text[region.a:region.b])]:
            raise ExtractError("extract-error", "erase check: token stream differs")
        self.regions_checked += 1
        return chunks

    def emit_region(self, region, fnrec=None):
        chunks = self.render_region(region)
        for c in chunks:
            if c["kind"] == "rw-ins":
                self.emit(c["text"])
                continue
            if c["kind"] == "ins":
                start = self.line
                txt = c["text"]
                self.emit(txt)
                self.insmap.append(dict(fn=fnrec["path"] if fnrec else region.label, tag=c["tag"],
                                        gen_line_start=start, gen_line_end=self.line, text=txt.strip()[:400]))
            else:
                self.emit(c["text"])

    # ---------- item lookup
    def find_item(self, kind, name, nth=1):
        cands = [it for it in self.sf.items if it.kind == kind and it.name == name]
        if len(cands) < nth:
            raise ExtractError("lost-anchor", f"{self.sf.rel}: item `{kind} {name}` #{nth} not found")
        return cands[nth - 1]

    # ---------- template processing
    def run_template(self, path, depth=0, assume=False):
        if depth > 5:
            raise ExtractError("extract-error", "include depth")
        lines = open(path, encoding="utf-8").read().split("\n")
        i = 0
        n = len(lines)
        cur_fn = None   # dict for current fn being assembled

        def payload(j):
            buf = []
            while j < n and not lines[j].lstrip().startswith("//@"):
                buf.append(lines[j])
                j += 1
            return "\n".join(buf) + "\n", j

        def close_fn():
            nonlocal cur_fn
            if cur_fn is None:
                return
            self.finish_fn(cur_fn)
            cur_fn = None

        while i < n:
            ln = lines[i]
            s = ln.strip()
            if not s.startswith("//@"):
                if cur_fn is not None:
                    if s == "":
                        i += 1
                        continue
                    raise ExtractError("extract-error", f"{path}:{i+1}: stray text inside //@fn (missing //@end?)")
                if self.impl and not self.impl_open_emitted and s != "" and not s.startswith("//"):
                    self.flush_impl_header()
                self.emit(ln + "\n")
                i += 1
                continue
            d = s[3:].strip()
            cmd = d.split(None, 1)[0] if d else ""
            arg = d[len(cmd):].strip()
            where = f"{os.path.basename(path)}:{i+1}"
            i += 1
            if cmd == "src":
                close_fn()
                self.sf = SrcFile.get(self.repo, arg)
                self.src_files.add(arg)
            elif cmd == "include":
                close_fn()
                a2 = arg.split()
                mode = assume or (a2[1] if len(a2) > 1 and a2[1] in ("assume", "opaque") else False)
                self.run_template(os.path.join(os.path.dirname(path), a2[0]), depth + 1, mode)
            elif cmd == "rwall":
                parts, rest = parse_backticks(arg)
                rule = rest.split()[0]
                self.rwall.append((rule, parts[0], parts[1]))
            elif cmd == "rwall-clear":
                self.rwall = []
            elif cmd == "rwall-pop":
                self.rwall.pop()
            elif cmd == "item":
                close_fn()
                a = arg.split()
                kind, name = a[0], a[1]
                opts = a[2:]
                nth = 1
                for o in opts:
                    if o.startswith("#"):
                        nth = int(o[1:])
                if kind == "impl":
                    name = " ".join(x for x in a[0:] if not x.startswith("#") and x != "pubfields")
                    name = norm(tokenize(name))
                it = self.find_item(kind, name, nth)
                cur_fn = dict(kind="item", item=it, sf=self.sf, ret=None, ins=[], rws=[], path=f"{self.sf.rel}::{kind} {name}",
                              where=where, opts=opts, impl=None)
            elif cmd == "impl":
                close_fn()
                nth = 1
                noassoc = False
                if arg.endswith(" noassoc"):
                    noassoc = True
                    arg = arg[:-len(" noassoc")].strip()
                m = re.search(r"#(\d+)\s*$", arg)
                if m:
                    nth = int(m.group(1))
                    arg = arg[:m.start()].strip()
                hdr = norm(tokenize(arg))
                it = self.find_item("impl", hdr, nth)
                members = scan_items(self.sf.toks, self.sf.brk, it.body_open + 1, it.last)
                self.impl = dict(item=it, members=members, hdr=hdr, noassoc=noassoc)
                toks = self.sf.toks
                # header text verbatim (from keyword, attrs dropped) incl '{'
                reg = Region(self.sf, toks[it.kw].start, toks[it.body_open].end, f"{self.sf.rel}::{hdr}")
                for (rule, frm, to) in self.rwall:
                    self.apply_rw(reg, it.kw, it.body_open, rule, None, frm, to, where)
                self.impl_rws_pending = reg
                # header-specific rewrites may follow as //@rw before first //@fn: handled lazily
                self.impl_open_emitted = False
                self.impl_hdr_rws = []
            elif cmd == "trait":
                close_fn()
                m = re.match(r"(\w+)\s+as\s+(.*)$", arg)
                if not m:
                    raise ExtractError("extract-error", f"{where}: bad //@trait")
                it = self.find_item("trait", m.group(1), 1)
                members = scan_items(self.sf.toks, self.sf.brk, it.body_open + 1, it.last)
                self.impl = dict(item=it, members=members, hdr="trait " + m.group(1), noassoc=True)
                toks = self.sf.toks
                reg = Region(self.sf, toks[it.kw].start, toks[it.body_open].end, f"{self.sf.rel}::trait {m.group(1)}")
                reg.add(toks[it.kw].start, toks[it.body_open].start, m.group(2) + " ", "rw", "R3")
                self.log.append(dict(rule="R3", file=self.sf.rel, line=self.sf.line_of(toks[it.kw].start),
                                     before=self.sf.text[toks[it.kw].start:toks[it.body_open].start], after=m.group(2)))
                self.impl_rws_pending = reg
                self.impl_open_emitted = False
            elif cmd == "endimpl":
                close_fn()
                self.flush_impl_header()
                self.emit("}\n")
                self.impl = None
            elif cmd == "fn":
                close_fn()
                self.flush_impl_header()
                m = re.match(r"([\w/]+)(?:\s*->\s*(\w+))?(?:\s+#(\d+))?\s*$", arg)
                if not m:
                    raise ExtractError("extract-error", f"{where}: bad //@fn")
                name, ret, nth = m.group(1), m.group(2), int(m.group(3) or 1)
                if "/" in name:
                    # nested fn: outer/inner (an fn item declared inside the body of a free fn of the file)
                    outer, inner = name.split("/", 1)
                    oc = [x for x in self.sf.items if x.kind == "fn" and x.name == outer]
                    if not oc or oc[0].body_open < 0:
                        raise ExtractError("lost-anchor", f"{where}: outer fn `{outer}` not found in {self.sf.rel}")
                    o = oc[0]
                    toks, brk = self.sf.toks, self.sf.brk
                    cands = []
                    k = o.body_open + 1
                    while k < o.last:
                        if toks[k].kind == "ident" and toks[k].text == "fn" and toks[k + 1].text == inner:
                            j = k + 2
                            while toks[j].text != "{":
                                if toks[j].text in ("(", "["):
                                    j = brk[j]
                                j += 1
                            cands.append(rstok.Item("fn", inner, k, k, j, brk[j], [], norm(toks[k:j])))
                            k = brk[j]
                        k += 1
                    owner = ""
                    name = inner
                    nested_of = outer
                elif self.impl:
                    cands = [x for x in self.impl["members"] if x.kind == "fn" and x.name == name]
                    owner = self.impl["hdr"]
                else:
                    cands = [x for x in self.sf.items if x.kind == "fn" and x.name == name]
                    owner = ""
                if len(cands) < nth:
                    raise ExtractError("lost-anchor", f"{where}: fn `{name}` not found in {self.sf.rel} {owner}")
                it = cands[nth - 1]
                cur_fn = dict(kind="fn", item=it, sf=self.sf, ret=ret, ins=[], rws=[], where=where, opts=[],
                              path=f"{self.sf.rel}::{owner + ' :: ' if owner else ''}{name}", impl=owner, name=name, assume=assume)
                if "/" in m.group(1):
                    cur_fn["path"] = f"{self.sf.rel}::{m.group(1)}"
            elif cmd == "rw":
                parts, rest = parse_backticks(arg)
                r = rest.split()
                rule, count = r[0], (-1 if r[1] == "*" else None if r[1] == "?" else int(r[1]))
                if cur_fn is None:
                    if self.impl and not self.impl_open_emitted:
                        it = self.impl["item"]
                        self.apply_rw(self.impl_rws_pending, it.kw, it.body_open, rule, count, parts[0], parts[1], where)
                    else:
                        raise ExtractError("extract-error", f"{where}: //@rw outside fn")
                else:
                    cur_fn["rws"].append((rule, count, parts[0], parts[1], where))
            elif cmd == "opaque":
                cur_fn["assume"] = "opaque"
            elif cmd in ("sig", "attr", "atend", "atstart"):
                txt, i = payload(i)
                cur_fn["ins"].append((cmd, None, 1, txt, where))
            elif cmd == "tail":
                txt, i = payload(i)
                cur_fn["ins"].append(("tail", arg.strip(), 1, txt, where))
            elif cmd == "continue-to-else":
                cur_fn["ins"].append(("cont2else", int(arg), 1, "", where))
            elif cmd == "tailof":
                parts, rest = parse_backticks(arg)
                txt, i = payload(i)
                cur_fn["ins"].append(("tailof", (parts[0], rest.strip()), 1, txt, where))
            elif cmd in ("loop", "loopstart", "loopend"):
                txt, i = payload(i)
                cur_fn["ins"].append((cmd, int(arg), 1, txt, where))
            elif cmd in ("before", "after", "beforestmt", "afterstmt"):
                parts, rest = parse_backticks(arg)
                m = re.search(r"#(-?\d+)", rest)
                nth = int(m.group(1)) if m else 1
                txt, i = payload(i)
                cur_fn["ins"].append((cmd, parts[0], nth, txt, where))
            elif cmd == "end":
                close_fn()
            elif cmd == "" or cmd.startswith("#"):
                pass
            else:
                raise ExtractError("extract-error", f"{where}: unknown directive {cmd}")
        close_fn()

    def flush_impl_header(self):
        if self.impl and not self.impl_open_emitted:
            self.emit_region(self.impl_rws_pending)
            self.emit("\n")
            self.impl_open_emitted = True
            # assoc types/consts
            sf = self.sf
            for mem in self.impl["members"]:
                if mem.kind in ("type", "const") and not self.impl.get("noassoc"):
                    reg = Region(sf, sf.toks[mem.kw].start, sf.toks[mem.last].end, "assoc")
                    for (rule, frm, to) in self.rwall:
                        self.apply_rw(reg, mem.kw, mem.last, rule, None, frm, to, "rwall")
                    self.emit("    ")
                    self.emit_region(reg)
                    self.emit("\n")

    def finish_fn(self, f):
        """emit one item; when an anchor / rewrite pattern of a FUNCTION is lost (the function was edited), the function is
        *demoted* for this run: signature + contract are kept, the body is dropped (D-body) and the contract is assumed, so
        that the rest of the unit can still be verified. The demotion is recorded (meta: demoted) and the property that
        owns the function is undecided on this tree."""
        snap = (len(self.out), self.line, len(self.fnmap), len(self.insmap), len(self.log), self.regions_checked)
        if f["kind"] == "fn" and not f.get("assume") and f["item"].body_open >= 0 and f["path"] in self.force_demote:
            f2 = dict(f)
            f2["demoted"] = self.force_demote[f["path"]]
            return self._finish_fn(f2)
        try:
            return self._finish_fn(dict(f))
        except ExtractError as e:
            if e.reason != "lost-anchor" or f["kind"] != "fn" or f.get("assume") or f["item"].body_open < 0:
                raise
            del self.out[snap[0]:]
            self.line = snap[1]
            del self.fnmap[snap[2]:]
            del self.insmap[snap[3]:]
            del self.log[snap[4]:]
            self.regions_checked = snap[5]
            f2 = dict(f)
            f2["demoted"] = str(e)
            return self._finish_fn(f2)

    def _finish_fn(self, f):
        sf = f["sf"]
        toks, brk = sf.toks, sf.brk
        it = f["item"]
        # region: from first non-attribute token (vis/kw) to last token
        first_tok = it.first
        for (a0, a1) in it.attrs:
            first_tok = a1 + 1
        reg = Region(sf, toks[it.first].start, toks[it.last].end, f["path"])
        # drop outer attributes except derive (handled by global edits)
        noderive = ()
        for o in f.get("opts", []):
            if o.startswith("noderive="):
                noderive = tuple(o[len("noderive="):].split(","))
        keepderive = ()
        for o in f.get("opts", []):
            if o.startswith("keepderive="):
                keepderive = tuple(o[len("keepderive="):].split(","))
        # bodies of functions that are not verified in this unit (opaque / assumed here / demoted) are dropped (D-body): they
        # play no role in what is verified or assumed, and they need not compile inside this unit
        explicit_eb = any(k == "attr" and "external_body" in t for (k, _, _, t, _) in f["ins"])
        opaque = (f.get("assume") or f.get("demoted") or explicit_eb) and f["kind"] == "fn" and it.body_open >= 0
        if opaque:
            # opaque function: only the signature is used in this unit; the body is not part of what is verified or
            # assumed here and is dropped (logged as D-body), so that it need not compile inside this unit
            hdr_last = it.body_open - 1
            self.apply_global_edits(reg, it.first, hdr_last, noderive, keepderive)
            for (rule, frm, to) in self.rwall:
                self.apply_rw(reg, it.first, hdr_last, rule, None, frm, to, f["where"])
            for (rule, count, frm, to, where) in f["rws"]:
                self.apply_rw(reg, it.first, hdr_last, rule, None, frm, to, where)
            bs, be = toks[it.body_open].start, toks[it.last].end
            reg.add(bs, be, "{ unimplemented!() }", "drop", "D-body")
            self.log.append(dict(rule="D-body", file=sf.rel, line=sf.line_of(bs), before=f"body of {f['path']}", after="{ unimplemented!() }"))
        else:
            self.apply_global_edits(reg, it.first, it.last, noderive, keepderive)
            for (rule, frm, to) in self.rwall:
                self.apply_rw(reg, it.first, it.last, rule, None, frm, to, f["where"])
            for (rule, count, frm, to, where) in f["rws"]:
                self.apply_rw(reg, it.first, it.last, rule, count, frm, to, where)
        if f["kind"] == "item" and "pubfields" in f["opts"]:
            # the item itself becomes pub as well (D-vis)
            has_pub = any(toks[q].text == "pub" for q in range(first_tok, it.kw))
            if not has_pub:
                reg.add(toks[it.kw].start, toks[it.kw].start, "pub ", "ins", "D-vis")
        if f["kind"] == "item" and "pubfields" in f["opts"] and it.body_open >= 0:
            # insert `pub ` before each field that is not already pub (struct with named fields)
            k = it.body_open + 1
            expect_field = True
            while k < it.last:
                t = toks[k]
                if t.text == "#" and toks[k + 1].text == "[":
                    k = brk[k + 1] + 1
                    continue
                if expect_field and t.kind == "ident":
                    if t.text != "pub":
                        reg.add(t.start, t.start, "pub ", "ins", "D-vis")
                    expect_field = False
                if t.text in ("(", "[", "{"):
                    k = brk[k] + 1
                    continue
                if t.text == "<":
                    # skip generics to avoid commas inside
                    depth = 1
                    k += 1
                    while depth and k < it.last:
                        if toks[k].text == "<":
                            depth += 1
                        elif toks[k].text == ">":
                            depth -= 1
                        elif toks[k].text == ">>":
                            depth -= 2
                        elif toks[k].text in ("(", "[", "{"):
                            k = brk[k]
                        k += 1
                    continue
                if t.text == ",":
                    expect_field = True
                k += 1
        if f["kind"] == "item" and "pubfields" in f["opts"] and it.body_open < 0 and it.kind == "struct":
            # tuple struct: `struct X<'a>(A, B);`
            k = it.kw + 2
            while k < it.last and toks[k].text != "(":
                k += 1
            if k < it.last:
                close = brk[k]
                j = k + 1
                expect_field = True
                adepth = 0
                while j < close:
                    t = toks[j]
                    if expect_field and adepth == 0:
                        if not (t.kind == "ident" and t.text == "pub"):
                            reg.add(t.start, t.start, "pub ", "ins", "D-vis")
                        expect_field = False
                    if t.text in ("(", "[", "{"):
                        j = brk[j] + 1
                        continue
                    if t.text == "<":
                        adepth += 1
                    elif t.text == ">":
                        adepth -= 1
                    elif t.text == ">>":
                        adepth -= 2
                    elif t.text == "," and adepth == 0:
                        expect_field = True
                    j += 1
        body_open = it.body_open
        if f["kind"] == "fn":
            if body_open < 0:
                raise ExtractError("lost-anchor", f"{f['where']}: fn {f['name']} has no body")
            # return type naming
            if f["ret"]:
                # find '->' at depth 0 between params close and body
                k = it.kw + 1
                arrow = -1
                while k < body_open:
                    if toks[k].text in ("(", "["):
                        k = brk[k] + 1
                        continue
                    if toks[k].text == "->":
                        arrow = k
                        break
                    k += 1
                if arrow < 0:
                    raise ExtractError("lost-anchor", f"{f['where']}: fn {f['name']} has no return type to name")
                # return type ends before `where` or body
                e = arrow + 1
                while e < body_open and not (toks[e].kind == "ident" and toks[e].text == "where"):
                    if toks[e].text in ("(", "["):
                        e = brk[e] + 1
                    else:
                        e += 1
                reg.add(toks[arrow + 1].start, toks[arrow + 1].start, f"({f['ret']}: ", "ins", "ret-name")
                reg.add(toks[e - 1].end, toks[e - 1].end, ")", "ins", "ret-name")
        loops = None
        if f.get("demoted"):
            why = " ".join(f["demoted"].split())[:160].replace("*/", "* /")
            f["ins"] = [("attr", None, 1, f"#[verifier::external_body] /* demoted on this tree: contract assumed, body not verified: {why} */\n", f["where"])] + \
                       [x for x in f["ins"] if (x[0] == "attr" and "external_body" not in x[3]) or x[0] == "sig"]
        elif f.get("assume") == "opaque" and f["kind"] == "fn":
            # only the signature is kept: callers learn nothing about the result and assume the call returns
            f["ins"] = [("attr", None, 1, "#[verifier::external_body] /* opaque here: no contract, totality assumed */\n", f["where"])] + \
                       [x for x in f["ins"] if (x[0] == "attr" and "external_body" not in x[3])]
            f["assumed_elsewhere"] = True
        elif f.get("assume") and not any(k == "attr" and "external_body" in t for (k, _, _, t, _) in f["ins"]):
            # contract assumed in this unit (proved in the unit that includes the same template without `assume`)
            f["ins"] = [("attr", None, 1, "#[verifier::external_body] /* assumed here, proved in another unit */\n", f["where"])] + \
                       [x for x in f["ins"] if x[0] in ("attr", "sig")]
            f["assumed_elsewhere"] = True
        if f["kind"] == "fn" and f["path"] in self.no_isolation and not f.get("assumed_elsewhere") and not f.get("demoted") \
                and not any(k == "attr" and "loop_isolation" in t for (k, _, _, t, _) in f["ins"]):
            f["ins"] = [("attr", None, 1, "#[verifier::loop_isolation(false)]\n", f["where"])] + list(f["ins"])
        if self.canary and f["kind"] == "fn" and not f.get("assumed_elsewhere") and body_open >= 0 \
                and not any(k == "attr" and "external_body" in t for (k, _, _, t, _) in f["ins"]):
            f["ins"] = list(f["ins"]) + [("atstart", None, 1, "        proof { assert(false); } // vacuity canary\n", f["where"])]
        for (kind, arg, nth, txt, where) in f["ins"]:
            if kind == "attr":
                reg.add(toks[first_tok].start, toks[first_tok].start, txt, "ins", "attr")
            elif kind == "sig":
                if body_open < 0:
                    raise ExtractError("extract-error", f"{where}: sig on item without body")
                reg.add(toks[body_open].start, toks[body_open].start, "\n" + txt, "ins", "sig")
            elif kind == "atend":
                reg.add(toks[it.last].start, toks[it.last].start, "\n" + txt, "ins", "atend")
            elif kind == "atstart":
                reg.add(toks[body_open].end, toks[body_open].end, "\n" + txt, "ins", "atstart")
            elif kind in ("tail", "tailof"):
                # name the value of the tail expression: `let <name> = <tail>; <payload> <name>` (insertions only)
                blk_open, blk_close = body_open, it.last
                if kind == "tailof":
                    anchor, arg = arg
                    pt = tokenize(anchor)
                    hits = find_seq(toks, it.first, it.last + 1, pt)
                    if not hits:
                        raise ExtractError("lost-anchor", f"{where}: anchor `{anchor}` not found in {f['path']}")
                    # innermost block containing the anchor
                    k = hits[0]
                    depth = 0
                    while k > body_open:
                        k -= 1
                        if toks[k].text in (")", "]", "}"):
                            k = brk[k]
                        elif toks[k].text == "{":
                            break
                    blk_open, blk_close = k, brk[k]
                k = blk_open + 1
                start = blk_open + 1
                while k < blk_close:
                    if toks[k].text in ("(", "[", "{"):
                        k = brk[k] + 1
                        continue
                    if toks[k].text == ";":
                        start = k + 1
                    k += 1
                it_last_save = it.last
                class _L: pass
                # skip block-like statements (for/while/loop/if/match) that precede the tail expression
                while start < blk_close and toks[start].kind == "ident" and toks[start].text in ("for", "while", "loop", "if", "match"):
                    k2 = start + 1
                    while k2 < blk_close and toks[k2].text != "{":
                        if toks[k2].text in ("(", "["):
                            k2 = brk[k2]
                        k2 += 1
                    endb = brk[k2]
                    while endb + 1 < blk_close and toks[endb + 1].text == "else":
                        k2 = endb + 2
                        while k2 < blk_close and toks[k2].text != "{":
                            if toks[k2].text in ("(", "["):
                                k2 = brk[k2]
                            k2 += 1
                        endb = brk[k2]
                    if endb + 1 >= blk_close:
                        break
                    start = endb + 1
                if start >= blk_close:
                    raise ExtractError("lost-anchor", f"{where}: fn {f['path']} has no tail expression")
                nm = arg.split(":")[0].strip()
                reg.add(toks[start].start, toks[start].start, f"let {arg} = ", "ins", "tail-name")
                reg.add(toks[blk_close].start, toks[blk_close].start, ";\n" + txt + f"\n{nm}\n", "ins", "tail")
            elif kind == "cont2else":
                if loops is None:
                    loops = find_loops(toks, brk, body_open + 1, it.last)
                if arg > len(loops):
                    raise ExtractError("lost-anchor", f"{where}: loop {arg} not found in {f['path']}")
                kwi, bi = loops[arg - 1]
                ce = brk[bi]
                # find `continue ; }` at nesting depth 1 inside the loop body (inside a top-level `if`)
                k = bi + 1
                hit = None
                while k < ce:
                    if toks[k].text == "continue" and toks[k + 1].text == ";" and toks[k + 2].text == "}":
                        # the enclosing block must be a direct child of the loop body
                        ob = brk[k + 2]
                        # check depth: walk back from ob to bi counting unmatched opens
                        q = ob - 1
                        depth = 0
                        while q > bi:
                            if toks[q].text in (")", "]", "}"):
                                q = brk[q]
                            elif toks[q].text in ("(", "[", "{"):
                                depth += 1
                            q -= 1
                        if depth == 0:
                            hit = k
                            break
                    k += 1
                if hit is None:
                    raise ExtractError("lost-anchor", f"{where}: no top-level `if .. {{ continue; }}` in loop {arg} of {f['path']}")
                reg.add(toks[hit].start, toks[hit + 2].end, "} else {", "rw", "R16")
                self.log.append(dict(rule="R16", file=sf.rel, line=sf.line_of(toks[hit].start), before="continue; }", after="} else {"))
                reg.add(toks[ce].start, toks[ce].start, "}\n", "rw-ins", "R16")
            elif kind in ("loop", "loopstart", "loopend"):
                if loops is None:
                    loops = find_loops(toks, brk, body_open + 1, it.last)
                if arg > len(loops):
                    raise ExtractError("lost-anchor", f"{where}: loop {arg} not found in {f['path']} (has {len(loops)})")
                kwi, bi = loops[arg - 1]
                if kind == "loop":
                    reg.add(toks[bi].start, toks[bi].start, "\n" + txt, "ins", f"loop {arg}")
                elif kind == "loopstart":
                    reg.add(toks[bi].end, toks[bi].end, "\n" + txt, "ins", f"loopstart {arg}")
                else:
                    ce = brk[bi]
                    reg.add(toks[ce].start, toks[ce].start, "\n" + txt, "ins", f"loopend {arg}")
            elif kind in ("before", "after", "beforestmt", "afterstmt"):
                pt = tokenize(arg)
                hits = find_seq(toks, it.first, it.last + 1, pt)
                if len(hits) < abs(nth) or nth == 0:
                    raise ExtractError("lost-anchor", f"{where}: anchor `{arg}` #{nth} not found in {f['path']}")
                h = hits[nth - 1] if nth > 0 else hits[nth]
                if kind == "before":
                    p = toks[h].start
                elif kind == "after":
                    p = toks[h + len(pt) - 1].end
                elif kind == "afterstmt":
                    k = h
                    while k < it.last and toks[k].text != ";":
                        if toks[k].text in ("(", "[", "{"):
                            k = brk[k]
                        k += 1
                    if k >= it.last:
                        raise ExtractError("lost-anchor", f"{where}: no statement end after `{arg}` in {f['path']}")
                    p = toks[k].end
                else:  # beforestmt
                    k = h - 1
                    while k > body_open and toks[k].text not in (";", "{", "}"):
                        if toks[k].text in (")", "]"):
                            k = brk[k]
                        k -= 1
                    p = toks[k].end
                reg.add(p, p, ("\n" if kind in ("after", "afterstmt", "beforestmt") else "") + txt, "ins", f"{kind} `{arg}`")
        start_line = self.line
        bare_closures = 0
        if f["kind"] == "fn" and body_open >= 0 and not (f.get("assume") or f.get("demoted")):
            # closures in the body that carry no ghost contract: the verifier cannot see through them
            CL_PREV = {"(", ",", "=", "{", ";", "[", "=>", "&&", "||", "!", "move", "return", "else", "in", ":"}
            k = body_open + 1
            while k < it.last:
                t = toks[k]
                if t.kind == "punct" and t.text in ("|", "||") and toks[k - 1].text in CL_PREV:
                    close = k
                    if t.text == "|":
                        close = k + 1
                        while close < it.last and toks[close].text != "|":
                            if toks[close].text in ("(", "[", "{"):
                                close = brk[close]
                            close += 1
                    endpos = toks[close].end
                    has_contract = any(e[0] == e[1] == endpos and e[3] == "ins" and ("ensures" in e[2] or "requires" in e[2]) for e in reg.edits) \
                        or any(e[3] == "rw" and e[0] <= toks[k].start < e[1] for e in reg.edits)
                    if not has_contract:
                        bare_closures += 1
                    k = close + 1
                    continue
                k += 1
        rec = dict(path=f["path"], src_file=sf.rel, src_line=sf.line_of(toks[it.kw].start), bare_closures=bare_closures,
                   sha1=hashlib.sha1(sf.text[toks[it.first].start:toks[it.last].end].encode()).hexdigest()[:16],
                   kind=f["kind"], name=f.get("name", it.name))
        self.emit("    " if f.get("impl") else "")
        self.emit_region(reg, rec)
        self.emit("\n")
        rec["gen_line_start"] = start_line
        rec["gen_line_end"] = self.line
        rec["external_body"] = any(k == "attr" and "external_body" in t for (k, _, _, t, _) in f["ins"])
        rec["assumed_elsewhere"] = bool(f.get("assumed_elsewhere"))
        rec["demoted"] = f.get("demoted")
        self.fnmap.append(rec)


def build_unit(repo, contracts_dir, unit, outdir, canary=False, force_demote=None, no_isolation=None):
    ex = Extractor(repo, contracts_dir, canary=canary, force_demote=force_demote, no_isolation=no_isolation)
    tpl = os.path.join(contracts_dir, "units", unit + ".vrs")
    ex.run_template(tpl)
    text = "".join(ex.out)
    os.makedirs(outdir, exist_ok=True)
    out_rs = os.path.join(outdir, unit + ".rs")
    with open(out_rs, "w") as fh:
        fh.write(text)
    meta = dict(unit=unit, functions=ex.fnmap, annotations=ex.insmap, log=ex.log,
                regions_erase_checked=ex.regions_checked, src_files=sorted(ex.src_files))
    with open(os.path.join(outdir, unit + ".map.json"), "w") as fh:
        json.dump(meta, fh, indent=1)
    return out_rs, meta


if __name__ == "__main__":
    import argparse
    ap = argparse.ArgumentParser()
    ap.add_argument("unit")
    ap.add_argument("--repo", default="/repo")
    ap.add_argument("--contracts", default=os.path.join(os.path.dirname(os.path.abspath(__file__)), "..", "contracts"))
    ap.add_argument("--out", default=os.path.join(os.path.dirname(os.path.abspath(__file__)), "..", "build"))
    a = ap.parse_args()
    try:
        p, meta = build_unit(a.repo, a.contracts, a.unit, a.out)
    except ExtractError as e:
        print(f"EXTRACT-FAIL reason={e.reason} {e}")
        sys.exit(2)
    print(p, len(meta["functions"]), "items,", len(meta["annotations"]), "annotations,", len(meta["log"]), "drops/rewrites")
