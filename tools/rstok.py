"""Minimal Rust tokenizer + item locator used by the extractor.

It is *not* a Rust parser: it finds token boundaries (so that comments, strings,
char literals and lifetimes are never confused with code), matches brackets, and
locates items (struct/enum/fn/impl/...) and loop headers by scanning tokens.
The generated file is compiled by rustc/Verus afterwards, which is the real
syntax check; here we only need robust *boundaries* to copy source text by byte
range.
"""
import re
from dataclasses import dataclass

PUNCT3 = ["<<=", ">>=", "...", "..="]
PUNCT2 = ["::", "->", "=>", "==", "!=", "<=", ">=", "&&", "||", "+=", "-=", "*=", "/=",
          "%=", "^=", "&=", "|=", "<<", ">>", ".."]

IDENT_RE = re.compile(r"[A-Za-z_][A-Za-z0-9_]*")
NUM_RE = re.compile(r"[0-9][0-9A-Za-z_]*(\.[0-9][0-9A-Za-z_]*)?([eE][+-]?[0-9_]+)?[A-Za-z0-9_]*")


@dataclass
class Tok:
    kind: str   # ident, num, str, char, life, punct, comment
    text: str
    start: int
    end: int

    def __repr__(self):
        return f"{self.kind}:{self.text!r}@{self.start}"


class TokError(Exception):
    pass


def tokenize(src: str, keep_comments=False):
    toks = []
    i = 0
    n = len(src)
    while i < n:
        c = src[i]
        if c in " \t\r\n":
            i += 1
            continue
        if src.startswith("//", i):
            j = src.find("\n", i)
            if j < 0:
                j = n
            if keep_comments:
                toks.append(Tok("comment", src[i:j], i, j))
            i = j
            continue
        if src.startswith("/*", i):
            depth = 1
            j = i + 2
            while j < n and depth > 0:
                if src.startswith("/*", j):
                    depth += 1
                    j += 2
                elif src.startswith("*/", j):
                    depth -= 1
                    j += 2
                else:
                    j += 1
            if depth:
                raise TokError("unterminated block comment")
            if keep_comments:
                toks.append(Tok("comment", src[i:j], i, j))
            i = j
            continue
        # raw strings / byte strings
        m = re.match(r"(b|c)?r(#*)\"", src[i:i + 40])
        if m and (i == 0 or not (src[i - 1].isalnum() or src[i - 1] == "_")):
            hashes = m.group(2)
            close = '"' + hashes
            j = src.find(close, i + m.end())
            if j < 0:
                raise TokError("unterminated raw string")
            j += len(close)
            toks.append(Tok("str", src[i:j], i, j))
            i = j
            continue
        if c == '"' or (c in "bc" and i + 1 < n and src[i + 1] == '"'):
            j = i + (1 if c == '"' else 2)
            while j < n and src[j] != '"':
                if src[j] == "\\":
                    j += 1
                j += 1
            if j >= n:
                raise TokError("unterminated string")
            j += 1
            toks.append(Tok("str", src[i:j], i, j))
            i = j
            continue
        if c == "'" or (c == "b" and i + 1 < n and src[i + 1] == "'"):
            k = i + (1 if c == "'" else 2)
            # char literal or lifetime
            if k < n and src[k] == "\\":
                j = k + 2
                while j < n and src[j] != "'":
                    j += 1
                j += 1
                toks.append(Tok("char", src[i:j], i, j))
                i = j
                continue
            # 'x' (any single char followed by ')
            if k + 1 < n and src[k + 1] == "'" and src[k] != "'":
                j = k + 2
                toks.append(Tok("char", src[i:j], i, j))
                i = j
                continue
            # multi-byte char literal like '€'
            m2 = re.match(r"[^\x00-\x7f]'", src[k:k + 2])
            if m2:
                j = k + 2
                toks.append(Tok("char", src[i:j], i, j))
                i = j
                continue
            if c == "'":
                m3 = IDENT_RE.match(src, k)
                if m3:
                    toks.append(Tok("life", src[i:m3.end()], i, m3.end()))
                    i = m3.end()
                    continue
            raise TokError(f"bad quote at {i}")
        m = IDENT_RE.match(src, i)
        if m:
            toks.append(Tok("ident", m.group(0), i, m.end()))
            i = m.end()
            continue
        if c.isdigit():
            m = NUM_RE.match(src, i)
            j = m.end()
            # do not swallow range operator or method call: 0..n, 1.max(2)
            txt = m.group(0)
            if "." in txt:
                dot = txt.index(".")
                after = txt[dot + 1:dot + 2]
                if not after.isdigit():
                    j = i + dot
            # "1..2": NUM_RE wouldn't match ".." since needs digit after "."
            toks.append(Tok("num", src[i:j], i, j))
            i = j
            continue
        for p in PUNCT3:
            if src.startswith(p, i):
                toks.append(Tok("punct", p, i, i + 3))
                i += 3
                break
        else:
            for p in PUNCT2:
                if src.startswith(p, i):
                    toks.append(Tok("punct", p, i, i + 2))
                    i += 2
                    break
            else:
                toks.append(Tok("punct", c, i, i + 1))
                i += 1
    return toks


OPEN = {"(": ")", "[": "]", "{": "}"}
CLOSE = {")": "(", "]": "[", "}": "{"}


def match_brackets(toks):
    """returns dict open_index->close_index and close->open"""
    stack = []
    m = {}
    for i, t in enumerate(toks):
        if t.kind != "punct":
            continue
        if t.text in OPEN:
            stack.append(i)
        elif t.text in CLOSE:
            if not stack:
                raise TokError(f"unbalanced {t.text} at {t.start}")
            o = stack.pop()
            if OPEN[toks[o].text] != t.text:
                raise TokError(f"mismatched bracket at {t.start}")
            m[o] = i
            m[i] = o
    if stack:
        raise TokError("unclosed bracket")
    return m


def norm(toks):
    """normalized text of a token sequence (single spaces)"""
    return " ".join(t.text for t in toks)


def split_generic_close(toks):
    """Angle brackets are not matched by match_brackets; '>>' may close two
    generics. We only need angle depth when scanning impl headers / fn
    signatures, handled locally."""
    return toks


ITEM_KW = {"struct", "enum", "fn", "impl", "trait", "const", "static", "type", "use", "mod",
           "macro_rules", "union", "extern"}


@dataclass
class Item:
    kind: str            # struct, enum, fn, impl, ...
    name: str            # ident name, or normalized header for impl
    first: int           # token index of first token (incl. attrs / vis)
    kw: int              # token index of the keyword
    body_open: int       # token index of '{' (or -1)
    last: int            # token index of last token ('}' or ';')
    attrs: list          # list of (first_tok, last_tok) for each outer attribute
    header: str = ""     # normalized header text (from kw to before body)


def scan_items(toks, brk, lo, hi):
    """Scan items among toks[lo:hi] (a module or impl/trait body)."""
    items = []
    i = lo
    while i < hi:
        first = i
        attrs = []
        # outer attributes
        while i < hi and toks[i].text == "#" and i + 1 < hi and toks[i + 1].text in ("[", "!"):
            j = i + 1
            if toks[j].text == "!":
                j += 1
            close = brk[j]
            attrs.append((i, close))
            i = close + 1
        if i >= hi:
            break
        # visibility / qualifiers
        j = i
        while j < hi and toks[j].kind == "ident" and toks[j].text in (
                "pub", "default", "unsafe", "async", "const", "extern") and not (
                toks[j].text == "const" and j + 1 < hi and toks[j + 1].kind == "ident"
                and toks[j + 1].text not in ITEM_KW and toks[j + 1].text not in ("unsafe", "async", "extern")):
            if toks[j].text == "pub" and j + 1 < hi and toks[j + 1].text == "(":
                j = brk[j + 1] + 1
            elif toks[j].text == "extern" and j + 1 < hi and toks[j + 1].kind == "str":
                j += 2
            else:
                j += 1
        if j >= hi:
            break
        kw = toks[j]
        if kw.kind != "ident" or kw.text not in ITEM_KW:
            # macro invocation item like foo! { } or foo!(...);
            if kw.kind == "ident" and j + 1 < hi and toks[j + 1].text == "!":
                k = j + 2
                if k < hi and toks[k].kind == "ident":
                    k += 1
                close = brk[k]
                last = close
                if toks[k].text != "{" and last + 1 < hi and toks[last + 1].text == ";":
                    last += 1
                items.append(Item("macro", kw.text, first, j, -1, last, attrs))
                i = last + 1
                continue
            raise TokError(f"cannot parse item at byte {kw.start}: {kw.text!r}")
        # find end: first '{' or ';' at bracket depth 0 (paren/brackets skipped)
        k = j + 1
        body_open = -1
        while k < hi:
            t = toks[k]
            if t.kind == "punct":
                if t.text in ("(", "["):
                    k = brk[k] + 1
                    continue
                if t.text == "{":
                    body_open = k
                    break
                if t.text == ";":
                    break
            k += 1
        if k >= hi:
            raise TokError(f"item without end at byte {kw.start}")
        if body_open >= 0:
            last = brk[body_open]
            # `struct X {..}` may not be followed by ';'; `const X: T = Foo { .. };` ends in ';'
            if kw.text in ("const", "static", "type", "use") :
                # expression containing braces: scan to ';' at depth 0
                k2 = last + 1
                while k2 < hi and toks[k2].text != ";":
                    if toks[k2].text in OPEN:
                        k2 = brk[k2] + 1
                    else:
                        k2 += 1
                last = k2
                body_open = -1
            hdr_end = body_open if body_open >= 0 else last
        else:
            last = k
            hdr_end = k
        header = norm(toks[j:hdr_end])
        if kw.text == "impl":
            name = header
        elif kw.text == "macro_rules":
            name = toks[j + 2].text
        else:
            name = toks[j + 1].text if j + 1 < hi else ""
        items.append(Item(kw.text, name, first, j, body_open, last, attrs, header))
        i = last + 1
    return items


LOOP_KW = {"loop", "while", "for"}


def find_loops(toks, brk, lo, hi):
    """indices of loop keywords in toks[lo:hi] in source order, each with its body '{' index."""
    res = []
    i = lo
    while i < hi:
        t = toks[i]
        if t.kind == "ident" and t.text in LOOP_KW:
            # exclude `for<'a>` HRTB and `impl X for Y`
            if t.text == "for" and i + 1 < hi and toks[i + 1].text == "<":
                i += 1
                continue
            # find the body brace: first '{' at depth 0 after header
            k = i + 1
            while k < hi:
                tt = toks[k]
                if tt.kind == "punct" and tt.text in ("(", "["):
                    k = brk[k] + 1
                    continue
                if tt.kind == "punct" and tt.text == "{":
                    break
                k += 1
            if k < hi:
                res.append((i, k))
        i += 1
    return res


def find_seq(toks, lo, hi, pat_toks):
    """all start indices in [lo,hi) where the token texts match pat_toks texts"""
    res = []
    m = len(pat_toks)
    if m == 0:
        return res
    pt = [p.text for p in pat_toks]
    first = pt[0]
    for i in range(lo, hi - m + 1):
        if toks[i].text == first:
            ok = True
            for d in range(1, m):
                if toks[i + d].text != pt[d]:
                    ok = False
                    break
            if ok:
                res.append(i)
    return res
