#!/bin/bash
# Runs every registered check on the unchanged tree (strict: UNDECIDED is an error) and then every seeded mutation.
# Seeded runs write their evidence and replay files outside /verif, so that /verif/evidence always describes /repo itself.
cd /verif
fail=0
props=$(python3 -c "import json;print(' '.join(c['property_id'] for c in json.load(open('MANIFEST.json'))['checks']))")
if [ "$1" != "--seeded-only" ]; then
for p in $props; do
  out=$(VERIF_STRICT=1 ./check $p 2>&1); rc=$?
  echo "$out" | tail -2 | head -1 | cut -c1-160
  if [ $rc -ne 0 ]; then echo "!! unchanged tree: $p rc=$rc"; echo "$out" | tail -5; fail=1; fi
done
fi
if [ "$1" == "--unchanged-only" ]; then exit $fail; fi
for d in seeded/*/; do
  id=$(basename $d); prop=$(python3 -c "import json;print(json.load(open('$d/meta.json'))['property'])")
  if ! git -C /repo apply /verif/$d/patch.diff 2>/dev/null; then echo "!! $id: patch does not apply"; fail=1; continue; fi
  out=$(VERIF_EVIDENCE_DIR=/tmp/verif-seeded-evidence VERIF_REPLAY_DIR=/tmp/verif-seeded-replays ./check $prop 2>&1); rc=$?
  git -C /repo checkout -- .
  v=$(echo "$out" | grep -c "^VIOLATION")
  echo "seeded $id ($prop): rc=$rc violations=$v $(echo "$out" | grep -E '^VIOLATION|^UNDECIDED' | head -1 | cut -c1-140)"
  if [ $rc -ne 1 ]; then fail=1; echo "!! $id NOT detected"; fi
done
rm -rf /verif/replay/out /tmp/verif-seeded-evidence /tmp/verif-seeded-replays
exit $fail
