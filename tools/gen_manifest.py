#!/usr/bin/env python3
"""Regenerates MANIFEST.json from contracts/props.json + contracts/manifest_meta.json."""
import json, os
H = os.path.dirname(os.path.dirname(os.path.abspath(__file__)))
props = json.load(open(os.path.join(H, "contracts", "props.json")))
meta = json.load(open(os.path.join(H, "contracts", "manifest_meta.json")))
allp = [json.loads(l)["id"] for l in open(os.path.join(H, "properties.jsonl"))]
checks = []
for pid in allp:
    if pid not in props or pid in meta["not_applicable"]:
        continue
    c = props[pid]
    m = meta["checks"].get(pid, {})
    checks.append({
        "property_id": pid,
        "quick_cmd": f"./check {pid} --tier quick",
        "thorough_cmd": f"./check {pid} --tier thorough",
        "evidence_file": f"/verif/evidence/{pid}.json",
        "replay_cmd_template": f"./check {pid} --replay {{path}}",
        "engine": "contracts",
        "level_claimed": {"category": c.get("level", "proof"), "text": m.get("text", ""), "design_ref": m.get("design_ref", "DESIGN.md section 5")},
        "level_note": m.get("note", ""),
        "technique": m.get("technique", "contract-based deductive verification (Verus/z3) of functions extracted mechanically from /repo"),
    })
na = [{"property_id": p, "reason": meta["not_applicable"][p]} for p in allp if p in meta["not_applicable"]]
man = {
    "version": 1,
    "setup_cmd": "true",
    "hooks": {"guard": "anergictcell_hpo_verif", "enable": "none needed: Verus works on text extracted from /repo/src; Kani harness crates include /repo/src files by path", "baseline_off_cmd": "cd /repo && cargo test --workspace --no-fail-fast --offline", "source_commits": [], "add_only": True},
    "engines": [{"name": "contracts", "path": "/verif/check", "serves_properties": [c["property_id"] for c in checks],
                 "kind_free_text": "extractor (tools/extract.py) copies the real functions by byte range into single-file Verus units with contracts from contracts/units/*.vrs; Verus (z3) discharges them; Kani/CBMC for loop-free scalar proofs and bounded text harnesses"}],
    "checks": checks,
    "notes": meta.get("notes", ""),
    "not_applicable": na,
}
json.dump(man, open(os.path.join(H, "MANIFEST.json"), "w"), indent=1)
print("checks:", [c["property_id"] for c in checks], "n/a:", [x["property_id"] for x in na])
