#!/usr/bin/env python3
"""Cross-property run: every seeded change x every registered check, on scratch worktrees (never /repo itself).
Reports, per seeded change, which checks raise a VIOLATION. The target property must; any other property that does is
listed for review (it is either genuinely broken by the change too, or a false alarm of that check).
usage: tools/crosscheck.py [-j N] [--only SEED[,SEED..]] [--props C01,C02..]   (results: /tmp/xw/results.jsonl)"""
import argparse, glob, json, os, queue, subprocess, sys, threading, shutil

ap = argparse.ArgumentParser()
ap.add_argument("-j", type=int, default=5)
ap.add_argument("--only", default="")
ap.add_argument("--props", default="")
ap.add_argument("--targets-only", action="store_true", help="run only the target property of each seeded change")
ap.add_argument("--dir", default="seeded", help="seeded (every change has a target property) or benign (no check may alarm)")
a = ap.parse_args()
ROOT = "/tmp/xw"
os.makedirs(ROOT, exist_ok=True)
props = [c["property_id"] for c in json.load(open("/verif/MANIFEST.json"))["checks"]]
if a.props:
    props = [p for p in props if p in a.props.split(",")]
seeds = sorted(os.path.basename(d.rstrip("/")) for d in glob.glob(f"/verif/{a.dir}/*/"))
if a.only:
    seeds = [s for s in seeds if s in a.only.split(",")]
jobs = queue.Queue()
for s in seeds:
    jobs.put(s)
out = open(os.path.join(ROOT, f"results-{a.dir}.jsonl"), "a")
lock = threading.Lock()

def worker(i):
    wt = f"{ROOT}/w{i}"
    if not os.path.isdir(wt):
        subprocess.run(["git", "-C", "/repo", "worktree", "add", "--detach", wt, "HEAD", "-q"], check=True)
    env = dict(os.environ, VERIF_REPO=wt, VERIF_BUILD=f"{ROOT}/b{i}", VERIF_EVIDENCE_DIR=f"{ROOT}/e{i}", VERIF_REPLAY_DIR=f"{ROOT}/r{i}")
    while True:
        try:
            s = jobs.get_nowait()
        except queue.Empty:
            break
        subprocess.run(["git", "-C", wt, "checkout", "-q", "--", "."], check=True)
        subprocess.run(["git", "-C", wt, "apply", f"/verif/{a.dir}/{s}/patch.diff"], check=True)
        target = (json.load(open(f"/verif/{a.dir}/{s}/meta.json")).get("property", "-") if os.path.exists(f"/verif/{a.dir}/{s}/meta.json") else "-")
        for p in ([target] if a.targets_only and target in props else props):
            r = subprocess.run([os.environ.get("XCHECK", "./check"), p, "--no-evidence"], cwd="/verif", env=env, capture_output=True, text=True)
            lines = [l for l in r.stdout.split("\n") if l.startswith(("VIOLATION", "UNDECIDED", "KNOWN"))]
            what = ""
            for l in lines:
                if l.startswith("VIOLATION") and "replay=" in l:
                    rp = l.split("replay=")[1].split()[0]
                    try:
                        d = json.load(open(rp))
                        what = (d.get("failed_obligation", "")[:160] + " || " + str(d.get("replay_on_real_code", ""))[:200])
                    except Exception:
                        pass
            rec = dict(seed=s, target=target, prop=p, rc=r.returncode, lines=[l[:200] for l in lines], what=what)
            with lock:
                out.write(json.dumps(rec) + "\n")
                out.flush()
        subprocess.run(["git", "-C", wt, "checkout", "-q", "--", "."], check=True)
    subprocess.run(["git", "-C", "/repo", "worktree", "remove", "--force", wt])
    shutil.rmtree(f"{ROOT}/b{i}", ignore_errors=True)

ts = [threading.Thread(target=worker, args=(i,)) for i in range(a.j)]
for t in ts:
    t.start()
for t in ts:
    t.join()
print("done; results in", os.path.join(ROOT, "results.jsonl"))
