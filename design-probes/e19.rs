use vstd::prelude::*;
use vstd::std_specs::iter::*;
verus! {
#[derive(Copy, Clone, PartialEq, Eq)]
pub struct Id { pub inner: u32 }
pub struct HpoGroup { pub ids: Vec<Id> }
impl HpoGroup {
    pub fn new() -> (r: Self) ensures r.ids@.len() == 0 { HpoGroup { ids: Vec::new() } }
    pub fn insert(&mut self, id: Id) ensures final(self).ids@ == old(self).ids@.push(id) { self.ids.push(id); }
}
impl FromIterator<Id> for HpoGroup {
    fn from_iter<T: IntoIterator<Item = Id>>(iter: T) -> Self {
        let mut group = HpoGroup::new();
        for id in iter {
            group.insert(id);
        }
        group
    }
}
fn use_collect(w: &Vec<Id>) -> (g: HpoGroup)
{
    let g: HpoGroup = w.iter().map(|x: &Id| -> (y: Id) ensures y == *x { *x }).filter(|id: &Id| -> (b: bool) ensures b == (id.inner != 118) { id.inner != 118 }).collect();
    g
}
fn anyp(w: &Vec<u32>, k: u32) -> (r: bool)
    ensures r ==> exists|i: int| 0 <= i < w.len() && w[i] == k
{
    w.iter().any(|x: &u32| -> (b: bool) ensures b == (*x == k) { *x == k })
}
} // verus!
fn main() {}
