use vstd::prelude::*;
use vstd::std_specs::iter::*;
verus! {
#[derive(Copy, Clone)]
pub struct Id { pub inner: u32 }
pub struct HpoGroup { pub ids: Vec<Id> }
pub struct Iter<'a> { pub iter: std::slice::Iter<'a, Id> }

impl Iterator for Iter<'_> {
    type Item = Id;
    fn next(&mut self) -> Option<Self::Item> {
        self.iter.next().copied()
    }
}
impl<'a> IteratorSpecImpl for Iter<'a> {

    open spec fn obeys_prophetic_iter_laws(&self) -> bool { true }
    #[verifier::prophetic]
    open spec fn remaining(&self) -> Seq<Id> { IteratorSpec::remaining(&self.iter).map_values(|r: &Id| *r) }
    #[verifier::prophetic]
    open spec fn will_return_none(&self) -> bool { IteratorSpec::will_return_none(&self.iter) }
    open spec fn decrease(&self) -> Option<nat> { IteratorSpec::decrease(&self.iter) }
    open spec fn peek(&self, index: int) -> Option<Id> { match IteratorSpec::peek(&self.iter, index) { Some(r) => Some(*r), None => None } }

}
impl<'a> IntoIterator for &'a HpoGroup {
    type Item = Id;
    type IntoIter = Iter<'a>;
    fn into_iter(self) -> (r: Self::IntoIter)
        ensures IteratorSpec::remaining(&r) == self.ids@, IteratorSpec::decrease(&r).is_some(), IteratorSpec::obeys_prophetic_iter_laws(&r)
    {
        Iter { iter: self.ids.iter() }
    }
}
pub assume_specification<'a, T: Copy> [ Option::<&'a T>::copied ] (o: Option<&'a T>) -> (r: Option<T>)
    ensures r == match o { Some(x) => Some(*x), None => None::<T> };

fn sum(g: &HpoGroup) -> u64 {
    let mut s: u64 = 0;
    for id in g {
        s = s.wrapping_add(id.inner as u64);
    }
    s
}
} // verus!
fn main() {}
