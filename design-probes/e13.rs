use vstd::prelude::*;
use vstd::std_specs::iter::*;
verus! {
fn f(w: &Vec<u32>) -> (r: Vec<&u32>)
{
    let v: Vec<&u32> = w.iter().filter(|x: &&u32| **x > 3).collect();
    v
}
fn g(w: &Vec<u32>) -> (r: Vec<u32>)
{
    let v: Vec<u32> = w.iter().map(|x: &u32| -> (y: u32) ensures y == *x { *x }).collect();
    v
}
fn allp(w: &Vec<u32>) -> bool
{
    w.iter().all(|x: &u32| *x > 3)
}
fn anyp(w: &Vec<u32>) -> bool
{
    w.iter().any(|x: &u32| *x > 3)
}
} // verus!
fn main() {}
