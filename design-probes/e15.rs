use vstd::prelude::*;
verus! {
fn u32_from_bytes(bytes: &[u8]) -> u32
    requires bytes.len() >= 4
{
    u32::from_be_bytes([bytes[0], bytes[1], bytes[2], bytes[3]])
}
fn sl(bytes: &[u8], a: usize, b: usize) -> (r: &[u8])
    requires a <= b <= bytes.len()
    ensures r@ == bytes@.subrange(a as int, b as int)
{
    &bytes[a..b]
}
fn sl2(bytes: &[u8], a: usize) -> (r: &[u8])
    requires a <= bytes.len()
{
    &bytes[a..]
}
fn tb(x: u32) -> [u8; 4] { x.to_be_bytes() }
fn tv(x: u32) -> Vec<u8> { let mut res = Vec::new(); res.append(&mut x.to_be_bytes().to_vec()); res }
fn s(name: &String) -> usize { let b = name.as_bytes(); std::cmp::min(b.len(), 255) }
fn fu(v: Vec<u8>) -> bool { let Ok(name) = String::from_utf8(v) else { return false; }; true }
} // verus!
fn main() {}
