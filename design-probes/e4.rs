use vstd::prelude::*;
use vstd::std_specs::cmp::*;
use core::cmp::Ordering;
verus! {

#[derive(Copy, Clone, Eq, Hash, Ord, PartialEq, PartialOrd)]
pub struct HpoTermId {
    pub inner: u32,
}

impl PartialEqSpecImpl for HpoTermId {
    open spec fn obeys_eq_spec() -> bool { true }
    open spec fn eq_spec(&self, other: &Self) -> bool { self.inner == other.inner }
}
impl PartialOrdSpecImpl for HpoTermId {
    open spec fn obeys_partial_cmp_spec() -> bool { true }
    open spec fn partial_cmp_spec(&self, other: &Self) -> Option<Ordering> {
        Some(if self.inner < other.inner { Ordering::Less } else if self.inner == other.inner { Ordering::Equal } else { Ordering::Greater })
    }
}
impl OrdSpecImpl for HpoTermId {
    open spec fn obeys_cmp_spec() -> bool { true }
    open spec fn cmp_spec(&self, other: &Self) -> Ordering {
        if self.inner < other.inner { Ordering::Less } else if self.inner == other.inner { Ordering::Equal } else { Ordering::Greater }
    }
}

pub open spec fn strictly_sorted(s: Seq<HpoTermId>) -> bool {
    forall|i: int, j: int| 0 <= i < j < s.len() ==> s[i].inner < s[j].inner
}

pub assume_specification<T: Ord> [ <[T]>::binary_search ] (s: &[T], x: &T) -> (r: Result<usize, usize>)
    ensures
        (forall|i: int, j: int| 0 <= i < j < s@.len() ==> s@[i].cmp_spec(&s@[j]) == Ordering::Less) ==> match r {
            Ok(i) => i < s@.len() && s@[i as int].cmp_spec(x) == Ordering::Equal,
            Err(i) => i <= s@.len()
                && (forall|k: int| 0 <= k < i ==> s@[k].cmp_spec(x) == Ordering::Less)
                && (forall|k: int| i <= k < s@.len() ==> s@[k].cmp_spec(x) == Ordering::Greater),
        };

pub struct HpoGroup {
    pub ids: Vec<HpoTermId>,
}

impl HpoGroup {
    pub open spec fn wf(&self) -> bool { strictly_sorted(self.ids@) }
    pub open spec fn has(&self, x: u32) -> bool { exists|i: int| 0 <= i < self.ids@.len() && #[trigger] self.ids@[i].inner == x }

    pub fn len(&self) -> usize {
        self.ids.len()
    }

    pub fn insert(&mut self, id: HpoTermId) -> (r: bool)
        requires old(self).wf()
        ensures final(self).wf(), forall|x: u32| final(self).has(x) <==> (old(self).has(x) || x == id.inner), r == !old(self).has(id.inner)
    {
        match self.ids.binary_search(&id) {
            Ok(_) => false,
            Err(idx) => {
                self.ids.insert(idx, id);
                proof {
                    let o = old(self).ids@; let n = self.ids@;
                    assert(n == o.insert(idx as int, id));
                    assert forall|x: u32| self.has(x) <==> (old(self).has(x) || x == id.inner) by {
                        if old(self).has(x) {
                            let i = choose|i: int| 0 <= i < o.len() && #[trigger] o[i].inner == x;
                            if i < idx { assert(n[i].inner == x); } else { assert(n[i+1].inner == x); }
                        }
                        if x == id.inner { assert(n[idx as int].inner == x); }
                        if self.has(x) {
                            let i = choose|i: int| 0 <= i < n.len() && #[trigger] n[i].inner == x;
                            if i < idx { assert(o[i].inner == x); } else if i > idx { assert(o[i-1].inner == x); }
                        }
                    }
                }
                true
            }
        }
    }
    pub fn contains(&self, id: &HpoTermId) -> (r: bool)
        requires self.wf()
        ensures r == self.has(id.inner)
    {
        self.ids.binary_search(id).is_ok()
    }
}

} // verus!
fn main() {}
