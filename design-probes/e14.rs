use vstd::prelude::*;
use vstd::std_specs::iter::*;
verus! {
fn allp(w: &Vec<u32>) -> (r: bool)
    ensures r <==> forall|i: int| 0 <= i < w.len() ==> w[i] > 3
{
    w.iter().all(|x: &u32| -> (b: bool) ensures b == (*x > 3) { *x > 3 })
}
fn f(w: &Vec<u32>) -> (r: Vec<&u32>)
    ensures forall|i: int| 0 <= i < r.len() ==> *r[i] > 3
{
    let v: Vec<&u32> = w.iter().filter(|x: &&u32| -> (b: bool) ensures b == (**x > 3) { **x > 3 }).collect();
    v
}
} // verus!
fn main() {}
