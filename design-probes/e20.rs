use vstd::prelude::*;
use vstd::std_specs::cmp::*;
use vstd::std_specs::iter::*;
use vstd::std_specs::ops::*;
use core::cmp::Ordering;
use std::ops::{Add, BitAnd, BitOr};
verus! {

#[derive(Copy, Clone, Eq, Hash, Ord, PartialEq, PartialOrd)]
pub struct HpoTermId { pub inner: u32 }
impl HpoTermId {
    pub fn to_usize(&self) -> usize {
        self.inner
            .try_into()
            .expect("hpo can only run on systems with at least 32 bit architecture")
    }
}
pub assume_specification<T: Ord> [ <[T]>::binary_search ] (s: &[T], x: &T) -> (r: Result<usize, usize>);
pub assume_specification<'a, T: Copy> [ Option::<&'a T>::copied ] (o: Option<&'a T>) -> (r: Option<T>)
    ensures r == match o { Some(x) => Some(*x), None => None::<T> };

#[derive(Clone)]
pub struct HpoGroup { pub ids: Vec<HpoTermId> }
pub struct Iter<'a> { pub iter: std::slice::Iter<'a, HpoTermId> }
impl Iterator for Iter<'_> {
    type Item = HpoTermId;
    fn next(&mut self) -> Option<Self::Item> {
        self.iter.next().copied()
    }
}
impl<'a> IteratorSpecImpl for Iter<'a> {
    open spec fn obeys_prophetic_iter_laws(&self) -> bool { true }
    #[verifier::prophetic]
    open spec fn remaining(&self) -> Seq<HpoTermId> { IteratorSpec::remaining(&self.iter).map_values(|r: &HpoTermId| *r) }
    #[verifier::prophetic]
    open spec fn will_return_none(&self) -> bool { IteratorSpec::will_return_none(&self.iter) }
    open spec fn decrease(&self) -> Option<nat> { IteratorSpec::decrease(&self.iter) }
    open spec fn peek(&self, index: int) -> Option<HpoTermId> { match IteratorSpec::peek(&self.iter, index) { Some(r) => Some(*r), None => None } }
}
impl<'a> IntoIterator for &'a HpoGroup {
    type Item = HpoTermId;
    type IntoIter = Iter<'a>;
    fn into_iter(self) -> (r: Self::IntoIter)
        ensures IteratorSpec::remaining(&r) == self.ids@, IteratorSpec::decrease(&r).is_some(), IteratorSpec::obeys_prophetic_iter_laws(&r)
    {
        Iter {
            iter: self.ids.iter(),
        }
    }
}
impl Default for HpoGroup { fn default() -> Self { HpoGroup { ids: Vec::new() } } }
impl HpoGroup {
    pub fn with_capacity(capacity: usize) -> Self { Self { ids: Vec::with_capacity(capacity) } }
    pub fn is_empty(&self) -> bool { self.ids.is_empty() }
    pub fn len(&self) -> usize { self.ids.len() }
    pub fn insert(&mut self, id: HpoTermId) -> bool {
        match self.ids.binary_search(&id) {
            Ok(_) => false,
            Err(idx) => {
                self.ids.insert(idx, id);
                true
            }
        }
    }
    pub fn iter(&self) -> Iter {
        self.into_iter()
    }
}
impl BitOr for &HpoGroup {
    type Output = HpoGroup;
    fn bitor(self, rhs: &HpoGroup) -> HpoGroup {
        let mut group = HpoGroup::with_capacity(self.len() + rhs.len());
        group
    }
}

pub struct HpoTermInternal {
    pub id: HpoTermId,
    pub name: String,
    pub parents: HpoGroup,
    pub all_parents: HpoGroup,
    pub children: HpoGroup,
}
impl HpoTermInternal {
    pub fn id(&self) -> &HpoTermId { &self.id }
    pub fn parents(&self) -> &HpoGroup { &self.parents }
    pub fn all_parents(&self) -> &HpoGroup { &self.all_parents }
    pub fn all_parents_mut(&mut self) -> &mut HpoGroup { &mut self.all_parents }
    pub fn parents_cached(&self) -> bool {
        if self.parents.is_empty() {
            true
        } else {
            !self.all_parents.is_empty()
        }
    }
}
pub struct Arena { pub terms: Vec<HpoTermInternal>, pub ids: Vec<usize> }
impl Arena {
    pub fn get_unchecked(&self, id: HpoTermId) -> &HpoTermInternal {
        &self.terms[self.ids[id.to_usize()]]
    }
    pub fn get_unchecked_mut(&mut self, id: HpoTermId) -> &mut HpoTermInternal {
        &mut self.terms[self.ids[id.to_usize()]]
    }
    pub fn keys(&mut self) -> Vec<HpoTermId> {
        self.terms[1..].iter().map(|term| *term.id()).collect()
    }
}
pub struct Builder { pub hpo_terms: Arena }
impl Builder {
    pub fn connect_all_terms(self) -> Builder {
        let mut this = self;
        for id in this.hpo_terms.keys() {
            this.create_cache_of_grandparents(id);
        }
        this
    }
    #[verifier::exec_allows_no_decreases_clause]
    fn create_cache_of_grandparents(&mut self, term_id: HpoTermId) {
        let mut res = HpoGroup::default();
        let parents = self.hpo_terms.get_unchecked(term_id).parents().clone();
        for parent in &parents {
            let grandparents = self.all_grandparents(parent);
            for gp in grandparents {
                res.insert(gp);
            }
        }
        let term = self.hpo_terms.get_unchecked_mut(term_id);
        *term.all_parents_mut() = res.bitor(&parents);
    }
    #[verifier::exec_allows_no_decreases_clause]
    fn all_grandparents(&mut self, term_id: HpoTermId) -> &HpoGroup {
        if !self.hpo_terms.get_unchecked(term_id).parents_cached() {
            self.create_cache_of_grandparents(term_id);
        }
        let term = self.hpo_terms.get_unchecked(term_id);
        term.all_parents()
    }
}

} // verus!
fn main() {}
