use vstd::prelude::*;
use vstd::std_specs::iter::*;
verus! {
pub uninterp spec fn fsum(s: Seq<f32>) -> f32;

pub assume_specification<I: Iterator, F: FnMut(I::Item) -> f32> [ <std::iter::Map<I, F> as Iterator>::sum::<f32> ] (it: std::iter::Map<I, F>) -> (r: f32)
    ensures r == fsum(IteratorSpec::remaining(&it));

fn summ(w: &Vec<u32>) -> f32
{
    w.iter().map(|x: &u32| 1.0f32).sum()
}
} // verus!
fn main() {}
