use vstd::prelude::*;
use vstd::std_specs::ops::*;
verus! {
fn d(a: f32, b: f32) -> (r: f32)
    requires a.div_req(b)
    ensures r == a.div_spec(b)
{
    a / b
}
fn m(a: f32, b: f32) -> (r: f32)
    requires a.mul_req(b)
    ensures r == a.mul_spec(b)
{
    a * b
}
proof fn p(a: f32, b: f32) {
    assert(a.div_req(b));
}
} // verus!
fn main() {}
