use vstd::prelude::*;
verus! {
pub uninterp spec fn ln_spec(x: f32) -> f32;
pub assume_specification [f32::ln] (x: f32) -> (r: f32) ensures r == ln_spec(x);

fn f32_from_usize(n: usize) -> Result<f32, ()> {
    let intermediate: u16 = match n.try_into() { Ok(x) => x, Err(_) => return Err(()) };
    Ok(intermediate.into())
}
fn calculate(total: usize, current: usize) -> (r: Result<f32, ()>)
    ensures (total == 0 || current == 0) ==> r == Ok::<f32,()>(0.0f32),
{
    if total == 0 || current == 0 {
        return Ok(0.0);
    }
    let total = f32_from_usize(total)?;
    let current = f32_from_usize(current)?;

    Ok((current / total).ln() * -1.0)
}
fn cmpf(a: f32, b: f32) -> f32 {
    if a > b { a } else { b }
}
fn z(a: f32) -> bool { a == 0.0 }
} // verus!
fn main() {}
