use vstd::prelude::*;
use std::ops::{Add, BitAnd, BitOr};
verus! {
#[derive(Copy, Clone, PartialEq, Eq)]
pub struct Id { pub inner: u32 }
pub struct HpoGroup { pub ids: Vec<Id> }
impl BitOr for HpoGroup {
    type Output = HpoGroup;
    fn bitor(self, rhs: HpoGroup) -> HpoGroup { self }
}
impl BitOr<&HpoGroup> for HpoGroup {
    type Output = HpoGroup;
    fn bitor(self, rhs: &HpoGroup) -> HpoGroup { self }
}
impl Add<Id> for &HpoGroup {
    type Output = HpoGroup;
    fn add(self, rhs: Id) -> HpoGroup { HpoGroup { ids: Vec::new() } }
}
impl BitAnd for HpoGroup {
    type Output = HpoGroup;
    fn bitand(self, rhs: HpoGroup) -> HpoGroup { self }
}
fn u1(a: HpoGroup, b: HpoGroup) -> HpoGroup { a | b }
fn u2(a: HpoGroup, b: &HpoGroup) -> HpoGroup { a | b }
fn u3(a: &HpoGroup, b: Id) -> HpoGroup { a.add(b) }
fn u4(a: &HpoGroup, b: &HpoGroup, x: Id, y: Id) -> HpoGroup { (a.add(x)) & (b.add(y)) }
} // verus!
fn main() {}
