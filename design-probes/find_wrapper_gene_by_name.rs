use vstd::prelude::*;
use std::collections::HashMap;
use vstd::std_specs::hash::*;
use vstd::std_specs::iter::*;
verus! {
pub struct Gene { pub id: u32, pub name: String }
impl Gene {
    pub fn name(&self) -> (r: &str) ensures r@ == self.name@ { self.name.as_str() }
}
pub uninterp spec fn str_eq_spec(a: Seq<char>, b: Seq<char>) -> bool;
#[verifier::external_body]
pub fn w_str_eq(a: &str, b: &str) -> (r: bool) ensures r == (a@ == b@) { a == b }

#[verifier::external_body]
pub fn w_find<I: Iterator, F: FnMut(&I::Item) -> bool>(it: I, f: F) -> (r: Option<I::Item>)
    ensures IteratorSpec::obeys_prophetic_iter_laws(&it) ==> match r {
        Some(x) => exists|k: int| 0 <= k < IteratorSpec::remaining(&it).len() && #[trigger] IteratorSpec::remaining(&it)[k] == x && f.ensures((&x,), true),
        None => forall|k: int| 0 <= k < IteratorSpec::remaining(&it).len() ==> f.ensures((&#[trigger] IteratorSpec::remaining(&it)[k],), false),
    }
{ let mut it = it; let mut f = f; it.find(|x| f(x)) }

pub struct O { pub genes: HashMap<u32, Gene> }
impl O {
    pub fn gene_by_name(&self, symbol: &str) -> (r: Option<&Gene>)
        ensures match r {
            Some(g) => g.name@ == symbol@ && exists|k: u32| self.genes@.contains_key(k) && self.genes@[k] == *g,
            None => forall|k: u32| self.genes@.contains_key(k) ==> self.genes@[k].name@ != symbol@,
        }
    {
        broadcast use group_hash_axioms;
        assume(obeys_key_model::<u32>());
        assume(builds_valid_hashers::<std::collections::hash_map::RandomState>());
        let it = self.genes.values();
        let ghost rem = IteratorSpec::remaining(&it);
        assert(IteratorSpec::obeys_prophetic_iter_laws(&it));
        assert(rem.unref().to_set() == self.genes@.values());
        let r = w_find(it, |gene: &&Gene| -> (b: bool) ensures b == (gene.name@ == symbol@) { w_str_eq(gene.name(), symbol) });
        proof {
            match r {
                Some(g) => {
                    let k = choose|k: int| 0 <= k < rem.len() && rem[k] == g;
                    assert(rem.unref()[k] == *g);
                    assert(rem.unref().to_set().contains(*g));
                    assert(self.genes@.values().contains(*g));
                }
                None => {
                    assert forall|k: u32| self.genes@.contains_key(k) implies self.genes@[k].name@ != symbol@ by {
                        assert(self.genes@.values().contains(self.genes@[k]));
                        assert(rem.unref().to_set().contains(self.genes@[k]));
                        let j = choose|j: int| 0 <= j < rem.unref().len() && rem.unref()[j] == self.genes@[k];
                        assert(*rem[j] == self.genes@[k]);
                    }
                }
            }
        }
        r
    }
}
}
fn main(){}
