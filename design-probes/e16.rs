use vstd::prelude::*;
use vstd::std_specs::iter::*;
verus! {
fn summ(w: &Vec<u32>) -> f32
{
    w.iter().map(|x: &u32| 1.0f32).sum()
}
fn foldd(w: &Vec<u32>) -> u32
{
    w.iter().map(|x: &u32| *x).fold(0u32, |acc: u32, x: u32| if x > acc { x } else { acc })
}
fn minn(w: &Vec<u32>) -> Option<u32>
{
    w.iter().map(|x: &u32| *x).min()
}
} // verus!
fn main() {}
