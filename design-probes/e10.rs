use vstd::prelude::*;
use std::collections::{HashMap, HashSet};
use std::collections::hash_map::Entry;
verus! {
use vstd::std_specs::hash::*;
broadcast use vstd::std_specs::hash::group_hash_axioms;

#[derive(Clone, Copy, Default, Debug, Hash, PartialEq, PartialOrd, Eq, Ord)]
pub struct GeneId { pub inner: u32 }
pub struct Gene { pub id: GeneId, pub name: String }
impl Gene {
    pub fn new(id: GeneId, name: &str) -> Gene {
        Gene { id, name: name.to_string() }
    }
}
pub struct B { pub genes: HashMap<GeneId, Gene>, pub s: HashSet<GeneId> }
impl B {
    pub fn add_gene(&mut self, gene_name: &str, gene_id: GeneId)
        requires obeys_key_model::<GeneId>(), builds_valid_hashers::<std::hash::RandomState>(),
        ensures final(self).genes@.contains_key(gene_id),
            forall|k: GeneId| k != gene_id ==> (final(self).genes@.contains_key(k) <==> old(self).genes@.contains_key(k)),
            old(self).genes@.contains_key(gene_id) ==> final(self).genes@ == old(self).genes@,
    {
        if let Entry::Vacant(entry) = self.genes.entry(gene_id) {
            entry.insert(Gene::new(gene_id, gene_name));
        }
    }
    pub fn add(&mut self, g: GeneId) -> (r: bool) requires obeys_key_model::<GeneId>(), builds_valid_hashers::<std::hash::RandomState>() ensures final(self).s@ == old(self).s@.insert(g), r == !old(self).s@.contains(g) {
        self.s.insert(g)
    }
    pub fn n(&self) -> usize { self.genes.len() }
}
} // verus!
fn main() {}
