use vstd::prelude::*;
use vstd::std_specs::iter::*;
use vstd::std_specs::ops::*;
use std::ops::{Add, BitAnd, BitOr};
verus! {
#[derive(Copy, Clone, PartialEq, Eq)]
pub struct Id { pub inner: u32 }
pub struct HpoGroup { pub ids: Vec<Id> }
impl HpoGroup {
    pub fn new() -> (r: Self) ensures r.ids@.len() == 0 { HpoGroup { ids: Vec::new() } }
    pub fn len(&self) -> (r: usize) ensures r == self.ids@.len() { self.ids.len() }
    pub fn with_capacity(c: usize) -> (r: Self) ensures r.ids@.len() == 0 { HpoGroup { ids: Vec::with_capacity(c) } }
    pub fn insert(&mut self, id: Id) ensures final(self).ids@ == old(self).ids@.push(id) { self.ids.push(id); }
}
pub uninterp spec fn union_spec(a: HpoGroup, b: HpoGroup) -> HpoGroup;
impl<'a> BitOrSpecImpl<&'a HpoGroup> for &'a HpoGroup {
    open spec fn obeys_bitor_spec() -> bool { true }
    open spec fn bitor_req(self, rhs: &'a HpoGroup) -> bool { self.ids@.len() + rhs.ids@.len() <= usize::MAX }
    open spec fn bitor_spec(self, rhs: &'a HpoGroup) -> HpoGroup { union_spec(*self, *rhs) }
}
impl<'a> BitOr for &'a HpoGroup {
    type Output = HpoGroup;
    fn bitor(self, rhs: &'a HpoGroup) -> (r: HpoGroup)
        ensures r.ids@.len() == 0
    {
        let mut group = HpoGroup::with_capacity(self.len() + rhs.len());
        group
    }
}
fn user<'x>(a: &'x HpoGroup, b: &'x HpoGroup) -> (r: HpoGroup)
    requires a.ids@.len() + b.ids@.len() <= 100
    ensures r.ids@.len() == 0
{
    a.bitor(b)
}
} // verus!
fn main() {}
