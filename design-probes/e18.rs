use vstd::prelude::*;
use std::collections::HashMap;
use std::marker::PhantomData;
verus! {
pub struct T { pub v: u32, pub ic: f32 }
pub struct A { pub terms: Vec<T>, pub m: HashMap<u32, T> }
pub struct St1; pub struct St2;
pub struct B<S> { pub a: A, pub state: PhantomData<S> }
fn transition_state<TX, TY>(b: B<TX>) -> (r: B<TY>) ensures r.a == b.a {
    B::<TY> { a: b.a, state: PhantomData }
}
impl A {
    pub fn values_mut(&mut self) -> &mut [T] { &mut self.terms[1..] }
}
impl B<St1> {
    fn bump(&mut self) {
        for term in self.a.terms.iter_mut() {
            term.v = 0;
        }
    }
    fn ex(&self, i: usize) -> u32 {
        assert!(i < 10, "foo");
        let x: Option<u32> = None;
        x.unwrap_or_else(|| panic!("Invalid {i}"))
    }
}
} // verus!
fn main() {}
