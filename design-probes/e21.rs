use vstd::prelude::*;
verus! {
pub struct HpoTermId { pub inner: u32 }
impl From<[u8; 4]> for HpoTermId {
    fn from(bytes: [u8; 4]) -> Self {
        Self {
            inner: w_u32_from_be_bytes(bytes),
        }
    }
}
#[verifier::external_body]
pub fn w_u32_from_be_bytes(b: [u8; 4]) -> (r: u32) { u32::from_be_bytes(b) }
pub assume_specification [ String::from_utf8 ] (v: Vec<u8>) -> (r: Result<String, std::string::FromUtf8Error>);
pub assume_specification<T: Clone> [ <[T]>::to_vec ] (s: &[T]) -> (r: Vec<T>) ensures r@ == s@;
#[verifier::external_type_specification]
#[verifier::external_body]
pub struct ExFromUtf8Error(std::string::FromUtf8Error);

pub enum HpoError { ParseBinaryError }
fn u32_from_bytes(bytes: &[u8]) -> u32 requires bytes.len() >= 4 {
    w_u32_from_be_bytes([bytes[0], bytes[1], bytes[2], bytes[3]])
}
pub struct Gene { pub id: u32, pub name: String, pub hpos: Vec<HpoTermId> }
impl Gene {
    pub fn new(id: u32, name: &str) -> Gene { Gene { id, name: name.to_string(), hpos: Vec::new() } }
    pub fn add_term(&mut self, t: HpoTermId) -> bool { self.hpos.push(t); true }
    fn try_from(bytes: &[u8]) -> Result<Self, HpoError> {
        if bytes.len() < 4 + 4 + 1 + 4 {
            return Err(HpoError::ParseBinaryError);
        }
        let total_len = u32_from_bytes(&bytes[0..]) as usize;

        if bytes.len() != total_len {
            return Err(HpoError::ParseBinaryError);
        }

        let id = u32_from_bytes(&bytes[4..]);
        let name_len = bytes[8] as usize;

        // Minimum length considering the name
        if bytes.len() < 13 + name_len {
            return Err(HpoError::ParseBinaryError);
        }

        let Ok(name) = String::from_utf8(bytes[9..9 + name_len].to_vec()) else {
            return Err(HpoError::ParseBinaryError);
        };

        let mut gene = Gene::new(id.into(), &name);

        let mut idx_terms = 9 + name_len;
        let n_terms = u32_from_bytes(&bytes[idx_terms..]);

        if bytes.len() < 13 + name_len + n_terms as usize * 4 {
            return Err(HpoError::ParseBinaryError);
        }

        idx_terms += 4;
        for _ in 0..n_terms {
            let term_id = HpoTermId::from([
                bytes[idx_terms],
                bytes[idx_terms + 1],
                bytes[idx_terms + 2],
                bytes[idx_terms + 3],
            ]);
            idx_terms += 4;

            gene.add_term(term_id);
        }

        if idx_terms == total_len && idx_terms == bytes.len() {
            Ok(gene)
        } else {
            Err(HpoError::ParseBinaryError)
        }
    }
}
pub assume_specification<A: std::iter::Step, AAA, FFF: FnMut(AAA, A) -> AAA> [<std::ops::RangeInclusive<A> as std::iter::Iterator>::fold] (r: std::ops::RangeInclusive<A>, init: AAA, f: FFF) -> (out: AAA);
fn sf(k: u64, mx: u64) -> f64 requires k < u64::MAX {
    ((k + 1)..=mx).fold(0.0, |acc: f64, i: u64| acc)
}
} // verus!
fn main() {}
