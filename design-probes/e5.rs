use vstd::prelude::*;
use vstd::std_specs::cmp::*;
use core::cmp::Ordering;
use vstd::std_specs::iter::IteratorSpec;
verus! {

#[derive(Copy, Clone, Eq, Hash, Ord, PartialEq, PartialOrd)]
pub struct HpoTermId {
    pub inner: u32,
}
impl PartialEqSpecImpl for HpoTermId {
    open spec fn obeys_eq_spec() -> bool { true }
    open spec fn eq_spec(&self, other: &Self) -> bool { self.inner == other.inner }
}
impl PartialOrdSpecImpl for HpoTermId {
    open spec fn obeys_partial_cmp_spec() -> bool { true }
    open spec fn partial_cmp_spec(&self, other: &Self) -> Option<Ordering> {
        Some(if self.inner < other.inner { Ordering::Less } else if self.inner == other.inner { Ordering::Equal } else { Ordering::Greater })
    }
}
impl OrdSpecImpl for HpoTermId {
    open spec fn obeys_cmp_spec() -> bool { true }
    open spec fn cmp_spec(&self, other: &Self) -> Ordering {
        if self.inner < other.inner { Ordering::Less } else if self.inner == other.inner { Ordering::Equal } else { Ordering::Greater }
    }
}

pub assume_specification<'a, T: Copy> [ Option::<&'a T>::copied ] (o: Option<&'a T>) -> (r: Option<T>)
    ensures r == match o { Some(x) => Some(*x), None => None::<T> };

pub struct HpoGroup {
    pub ids: Vec<HpoTermId>,
}

pub struct Iter<'a> {
    pub iter: std::slice::Iter<'a, HpoTermId>,
}

impl<'a> Iter<'a> {
    #[verifier::prophetic]
    pub open spec fn rem(&self) -> Seq<HpoTermId> { self.iter.remaining().map_values(|r: &HpoTermId| *r) }
    fn next(&mut self) -> (r: Option<HpoTermId>)
        ensures
            old(self).rem().len() == 0 ==> r.is_none() && final(self).rem() == old(self).rem(),
            old(self).rem().len() > 0 ==> r == Some(old(self).rem()[0]) && final(self).rem() == old(self).rem().skip(1),
    {
        self.iter.next().copied()
    }
}

pub open spec fn strictly_sorted(s: Seq<HpoTermId>) -> bool {
    forall|i: int, j: int| 0 <= i < j < s.len() ==> s[i].inner < s[j].inner
}
pub open spec fn seq_has(s: Seq<HpoTermId>, x: u32) -> bool {
    exists|i: int| 0 <= i < s.len() && #[trigger] s[i].inner == x
}
pub open spec fn pending(cur: Option<HpoTermId>, rest: Seq<HpoTermId>) -> Seq<HpoTermId> {
    match cur { Some(c) => seq![c] + rest, None => Seq::empty() }
}
impl HpoGroup {
    pub open spec fn wf(&self) -> bool { strictly_sorted(self.ids@) }
    pub open spec fn has(&self, x: u32) -> bool { seq_has(self.ids@, x) }
    pub fn with_capacity(capacity: usize) -> (r: Self) ensures r.ids@.len() == 0 {
        Self {
            ids: Vec::with_capacity(capacity),
        }
    }
    pub fn len(&self) -> (r: usize) ensures r == self.ids@.len() {
        self.ids.len()
    }
    fn insert_unchecked(&mut self, id: HpoTermId) ensures final(self).ids@ == old(self).ids@.push(id) {
        self.ids.push(id);
    }
    pub fn iter(&self) -> (r: Iter) ensures r.rem() == self.ids@ {
        Iter {
            iter: self.ids.iter(),
        }
    }

    fn bitor(&self, rhs: &HpoGroup) -> (res: HpoGroup)
        requires self.wf(), rhs.wf(), self.ids@.len() + rhs.ids@.len() <= usize::MAX
        ensures res.wf(), forall|x: u32| res.has(x) <==> (self.has(x) || rhs.has(x))
    {
        let ghost rhs0 = rhs.ids@;
        let ghost lhs0 = self.ids@;
        let mut group = HpoGroup::with_capacity(self.len() + rhs.len());
        let mut lhs = self.iter();
        let mut rhs = rhs.iter();

        let mut left = lhs.next();
        let mut right = rhs.next();

        // This will loop until both iterators are depleted
        loop
            invariant
                strictly_sorted(lhs0), strictly_sorted(rhs0),
                left.is_none() ==> lhs.rem().len() == 0,
                right.is_none() ==> rhs.rem().len() == 0,
                pending(left, lhs.rem()).len() <= lhs0.len(),
                pending(right, rhs.rem()).len() <= rhs0.len(),
                pending(left, lhs.rem()) == lhs0.subrange(lhs0.len() - pending(left, lhs.rem()).len(), lhs0.len() as int),
                pending(right, rhs.rem()) == rhs0.subrange(rhs0.len() - pending(right, rhs.rem()).len(), rhs0.len() as int),
                strictly_sorted(group.ids@),
                forall|i: int, j: int| 0 <= i < group.ids@.len() && 0 <= j < pending(left, lhs.rem()).len() ==> group.ids@[i].inner < pending(left, lhs.rem())[j].inner,
                forall|i: int, j: int| 0 <= i < group.ids@.len() && 0 <= j < pending(right, rhs.rem()).len() ==> group.ids@[i].inner < pending(right, rhs.rem())[j].inner,
                forall|x: u32| seq_has(group.ids@, x) <==> (
                    seq_has(lhs0.subrange(0, lhs0.len() - pending(left, lhs.rem()).len()), x)
                    || seq_has(rhs0.subrange(0, rhs0.len() - pending(right, rhs.rem()).len()), x)),
                group.ids@.len() <= (lhs0.len() - pending(left, lhs.rem()).len()) + (rhs0.len() - pending(right, rhs.rem()).len()),
            decreases lhs0.len() + rhs0.len() - group.ids@.len()
        {
            match (left, right) {
                (Some(l), Some(r)) => match l.cmp(&r) {
                    std::cmp::Ordering::Less => {
                        group.insert_unchecked(l);
                        left = lhs.next();
                    }
                    std::cmp::Ordering::Greater => {
                        group.insert_unchecked(r);
                        right = rhs.next();
                    }
                    std::cmp::Ordering::Equal => {
                        group.insert_unchecked(l);
                        left = lhs.next();
                        right = rhs.next();
                    }
                },
                (Some(l), None) => {
                    group.insert_unchecked(l);
                    left = lhs.next();
                }
                (None, Some(r)) => {
                    group.insert_unchecked(r);
                    right = rhs.next();
                }
                _ => return group,
            }
        }
    }
}

} // verus!
fn main() {}
